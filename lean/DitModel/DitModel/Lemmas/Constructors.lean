/-
Helper lemmas for C11 (table-operation part): `modifyOutcomes`, `insertRvf`, `productTabs`,
`productDistribution`, `mixture`, `mixture2`, `combine`, `matmul`, `uniformTab`, `erasureTab`,
`noisyTab`, `meanTab`, `centralMoment`, `modeTab`, `cumVals` of Core/Constructors.lean.
Property theorems: Props/C11.lean.
-/
import DitModel.Core.Constructors
import DitModel.Lemmas.Table
import DitModel.Lemmas.Cond
import Mathlib.Algebra.Order.Field.Basic
import Mathlib.Algebra.BigOperators.Ring.List
import Mathlib.Algebra.BigOperators.Group.List.Lemmas
import Mathlib.Algebra.CharZero.Defs
import Mathlib.Tactic.Ring
import Mathlib.Tactic.FieldSimp
import Mathlib.Data.Nat.Cast.Basic
import Mathlib.Tactic.Linarith

set_option linter.unusedSectionVars false

namespace Dit.Lemmas.Constructors
open Dit Dit.Lemmas.Table Dit.Lemmas.Cond

/-! ## `project` onto ranges -/

section ProjectRange
variable {σ : Type}

theorem project_append (g h : List Nat) (o : List σ) :
    project (g ++ h) o = project g o ++ project h o := by
  simp [project, List.filterMap_append]

/-- Projecting onto the positions `s, s+1, …, s+k-1` is `drop s` then `take k`. -/
theorem project_range' (s k : Nat) (o : List σ) :
    project (List.range' s k) o = (o.drop s).take k := by
  induction k generalizing s with
  | zero => simp [project]
  | succ k ih =>
    rw [List.range'_succ, project_cons, ih]
    by_cases hs : s < o.length
    · rw [List.getElem?_eq_getElem hs]
      simp only
      rw [List.drop_eq_getElem_cons hs, List.take_succ_cons]
    · rw [List.getElem?_eq_none (by omega)]
      simp only
      rw [List.drop_eq_nil_of_le (by omega), List.drop_eq_nil_of_le (by omega)]
      simp

theorem project_range (k : Nat) (o : List σ) : project (List.range k) o = o.take k := by
  rw [List.range_eq_range', project_range']; simp

end ProjectRange

/-! ## `insertRvf` -/

section Insert
variable {σ α : Type}

/-- The new outcome that `insert_rvf` builds from `o`. -/
def insOut (f : List σ → List σ) (index : Option Nat) (o : List σ) : List σ :=
  match index with
  | none => o ++ f o
  | some i => o.take i ++ f o ++ o.drop i

/-- Positions of the old variables inside the new outcome (`n` old variables, `m` new ones). -/
def oldPos (index : Option Nat) (n m : Nat) : List Nat :=
  match index with
  | none => List.range n
  | some i => List.range i ++ List.range' (i + m) (n - i)

theorem insertRvf_eq_map (f : List σ → List σ) (index : Option Nat) (t : Tab (List σ) α) :
    insertRvf f index t = t.map (fun r => (insOut f index r.1, r.2)) := by
  cases index <;> rfl

theorem keys_insertRvf (f : List σ → List σ) (index : Option Nat) (t : Tab (List σ) α) :
    keys (insertRvf f index t) = (keys t).map (insOut f index) := by
  rw [insertRvf_eq_map]; simp [keys, Function.comp_def]

theorem vals_insertRvf (f : List σ → List σ) (index : Option Nat) (t : Tab (List σ) α) :
    vals (insertRvf f index t) = vals t := by
  rw [insertRvf_eq_map]; simp [vals, Function.comp_def]

/-- Projecting the new outcome back onto the old positions recovers the old outcome. -/
theorem project_oldPos_insOut (f : List σ → List σ) (index : Option Nat) (n m : Nat)
    (o : List σ) (hn : o.length = n) (hm : index ≠ none → (f o).length = m)
    (hi : ∀ i, index = some i → i ≤ n) :
    project (oldPos index n m) (insOut f index o) = o := by
  cases index with
  | none =>
    show project (List.range n) (o ++ f o) = o
    rw [project_range, ← hn]; simp
  | some i =>
    have hin : i ≤ n := hi i rfl
    have hm := hm (by simp)
    show project (List.range i ++ List.range' (i + m) (n - i)) (o.take i ++ f o ++ o.drop i) = o
    have hlt : (o.take i).length = i := by rw [List.length_take]; omega
    rw [project_append, project_range, project_range']
    have e1 : (o.take i ++ f o ++ o.drop i).take i = o.take i := by
      rw [List.append_assoc, List.take_append_of_le_length (by omega), List.take_take]
      simp
    have e2 : (o.take i ++ f o ++ o.drop i).drop (i + m) = o.drop i := by
      have : (o.take i ++ f o).length = i + m := by rw [List.length_append, hlt, hm]
      rw [← this, List.drop_left]
    have e3 : (o.drop i).take (n - i) = o.drop i :=
      List.take_of_length_le (by rw [List.length_drop]; omega)
    rw [e1, e2, e3, List.take_append_drop]

/-- On outcomes of a common length (and, for an insertion position, with new symbols of a
common length) the map `o ↦ new outcome` is injective. -/
theorem insOut_injOn (f : List σ → List σ) (index : Option Nat) (n m : Nat)
    (o o' : List σ) (hn : o.length = n) (hn' : o'.length = n)
    (hm : index ≠ none → (f o).length = m ∧ (f o').length = m)
    (h : insOut f index o = insOut f index o') : o = o' := by
  cases index with
  | none =>
    exact (List.append_inj h (by rw [hn, hn'])).1
  | some i =>
    obtain ⟨hm1, hm2⟩ := hm (by simp)
    have h' : o.take i ++ f o ++ o.drop i = o'.take i ++ f o' ++ o'.drop i := h
    have hl : (o.take i).length = (o'.take i).length := by
      rw [List.length_take, List.length_take, hn, hn']
    rw [List.append_assoc, List.append_assoc] at h'
    obtain ⟨h1, h2⟩ := List.append_inj h' hl
    obtain ⟨_, h3⟩ := List.append_inj h2 (by rw [hm1, hm2])
    rw [← List.take_append_drop i o, ← List.take_append_drop i o', h1, h3]

end Insert

section InsertWt
variable {σ α : Type} [DecidableEq σ] [AddCommMonoid α]

theorem wtBy_insertRvf (p : List σ → Prop) [DecidablePred p] (f : List σ → List σ)
    (index : Option Nat) (t : Tab (List σ) α) :
    wtBy p (insertRvf f index t) = wtBy (fun o => p (insOut f index o)) t := by
  rw [insertRvf_eq_map, wtBy_map_key]

theorem insertRvf_keys_nodup (f : List σ → List σ) (index : Option Nat) (n m : Nat)
    (t : Tab (List σ) α) (hnd : (keys t).Nodup) (hn : ∀ k ∈ keys t, k.length = n)
    (hm : index ≠ none → ∀ k ∈ keys t, (f k).length = m) :
    (keys (insertRvf f index t)).Nodup := by
  rw [keys_insertRvf]
  refine hnd.map_on ?_
  intro o ho o' ho' e
  exact insOut_injOn f index n m o o' (hn o ho) (hn o' ho')
    (fun hne => ⟨hm hne o ho, hm hne o' ho'⟩) e

/-- Projecting the new table back onto the old positions gives back every event weight. -/
theorem wtBy_insertRvf_old (p : List σ → Prop) [DecidablePred p] (f : List σ → List σ)
    (index : Option Nat) (n m : Nat) (t : Tab (List σ) α) (hn : ∀ k ∈ keys t, k.length = n)
    (hm : index ≠ none → ∀ k ∈ keys t, (f k).length = m) (hi : ∀ i, index = some i → i ≤ n) :
    wtBy p (pushforward (project (oldPos index n m)) (insertRvf f index t)) = wtBy p t := by
  rw [wtBy_pushforward, wtBy_insertRvf]
  apply wtBy_congr
  intro k hk
  rw [project_oldPos_insOut f index n m k (hn k hk) (fun hne => hm hne k hk) hi]

/-- A stored row keeps its value at its new outcome. -/
theorem lookup?_insertRvf (f : List σ → List σ) (index : Option Nat) (n m : Nat)
    (t : Tab (List σ) α) (hnd : (keys t).Nodup) (hn : ∀ k ∈ keys t, k.length = n)
    (hm : index ≠ none → ∀ k ∈ keys t, (f k).length = m) (o : List σ) (v : α)
    (hov : (o, v) ∈ t) :
    lookup? (insertRvf f index t) (insOut f index o) = some v := by
  rw [lookup?_eq_some_iff (insertRvf_keys_nodup f index n m t hnd hn hm), insertRvf_eq_map]
  exact List.mem_map.mpr ⟨(o, v), hov, rfl⟩

end InsertWt

/-! ## Independent products of two tables -/

section Prod2
variable {κ₁ κ₂ κ α : Type} [Semiring α]

/-- The table of all pairs of rows, keyed by `G`, with multiplied values. -/
theorem wtBy_pairs (p : κ → Prop) [DecidablePred p] (G : κ₁ → κ₂ → κ) (t1 : Tab κ₁ α)
    (t2 : Tab κ₂ α) :
    wtBy p (t1.flatMap (fun r => t2.map (fun s => (G r.1 s.1, r.2 * s.2))))
      = (t1.map (fun r => (t2.map (fun s => if p (G r.1 s.1) then r.2 * s.2 else 0)).sum)).sum := by
  rw [wtBy_flatMap]
  apply congrArg
  apply List.map_congr_left
  intro r _
  simp [wtBy, Function.comp_def]

/-- Rectangles: if the event is `P × Q` through `G`, its weight is the product of weights. -/
theorem sum_pairs_rect (P : κ₁ → Prop) [DecidablePred P] (Q : κ₂ → Prop) [DecidablePred Q]
    (t1 : Tab κ₁ α) (t2 : Tab κ₂ α) :
    (t1.map (fun r => (t2.map (fun s => if P r.1 ∧ Q s.1 then r.2 * s.2 else 0)).sum)).sum
      = wtBy P t1 * wtBy Q t2 := by
  have inner : ∀ r : κ₁ × α,
      (t2.map (fun s => if P r.1 ∧ Q s.1 then r.2 * s.2 else 0)).sum
        = (if P r.1 then r.2 else 0) * wtBy Q t2 := by
    intro r
    unfold wtBy
    rw [← List.sum_map_mul_left]
    apply congrArg
    apply List.map_congr_left
    intro s _
    by_cases hP : P r.1 <;> by_cases hQ : Q s.1 <;> simp [hP, hQ]
  simp only [inner]
  rw [List.sum_map_mul_right]
  rfl

theorem wtBy_pairs_rect (p : κ → Prop) [DecidablePred p] (G : κ₁ → κ₂ → κ)
    (P : κ₁ → Prop) [DecidablePred P] (Q : κ₂ → Prop) [DecidablePred Q]
    (t1 : Tab κ₁ α) (t2 : Tab κ₂ α)
    (h : ∀ a ∈ keys t1, ∀ b ∈ keys t2, p (G a b) ↔ P a ∧ Q b) :
    wtBy p (t1.flatMap (fun r => t2.map (fun s => (G r.1 s.1, r.2 * s.2))))
      = wtBy P t1 * wtBy Q t2 := by
  rw [wtBy_pairs, ← sum_pairs_rect]
  apply congrArg
  apply List.map_congr_left
  intro r hr
  apply congrArg
  apply List.map_congr_left
  intro s hs
  have := h r.1 (List.mem_map_of_mem hr) s.1 (List.mem_map_of_mem hs)
  by_cases hp : p (G r.1 s.1)
  · rw [if_pos hp, if_pos (this.mp hp)]
  · rw [if_neg hp, if_neg (fun hh => hp (this.mpr hh))]

theorem mass_pairs (G : κ₁ → κ₂ → κ) (t1 : Tab κ₁ α) (t2 : Tab κ₂ α) :
    mass (t1.flatMap (fun r => t2.map (fun s => (G r.1 s.1, r.2 * s.2)))) = mass t1 * mass t2 := by
  rw [← wtBy_true, ← wtBy_true, ← wtBy_true]
  exact wtBy_pairs_rect _ G _ _ t1 t2 (fun _ _ _ _ => by simp)

theorem keys_pairs (G : κ₁ → κ₂ → κ) (t1 : Tab κ₁ α) (t2 : Tab κ₂ α) :
    keys (t1.flatMap (fun r => t2.map (fun s => (G r.1 s.1, r.2 * s.2))))
      = (keys t1).flatMap (fun a => (keys t2).map (G a)) := by
  simp [keys, List.map_flatMap, List.flatMap_map, Function.comp_def]

/-- The pair table lists each key once when both factors do and `G` is injective on them. -/
theorem keys_pairs_nodup (G : κ₁ → κ₂ → κ) (t1 : Tab κ₁ α) (t2 : Tab κ₂ α)
    (h1 : (keys t1).Nodup) (h2 : (keys t2).Nodup)
    (hinj : ∀ a ∈ keys t1, ∀ a' ∈ keys t1, ∀ b ∈ keys t2, ∀ b' ∈ keys t2,
      G a b = G a' b' → a = a' ∧ b = b') :
    (keys (t1.flatMap (fun r => t2.map (fun s => (G r.1 s.1, r.2 * s.2))))).Nodup := by
  rw [keys_pairs, List.nodup_flatMap]
  constructor
  · intro a ha
    refine h2.map_on ?_
    intro b hb b' hb' e
    exact (hinj a ha a ha b hb b' hb' e).2
  · refine h1.imp_of_mem ?_
    intro a a' ha ha' hne
    simp only [Function.onFun]
    rw [List.disjoint_left]
    intro z hz hz'
    obtain ⟨b, hb, rfl⟩ := List.mem_map.mp hz
    obtain ⟨b', hb', e⟩ := List.mem_map.mp hz'
    exact hne (hinj a' ha' a ha b' hb' b hb e).1.symm

end Prod2

/-! ## `combine` and `matmul` -/

section Combine
variable {σ τ α : Type} [DecidableEq σ] [DecidableEq τ] [Semiring α]

/-- Law of `op(X, Y)` for independent `X ~ t1`, `Y ~ t2`. -/
theorem wtBy_combine (p : τ → Prop) [DecidablePred p] (op : σ → σ → τ) (t1 t2 : Tab σ α) :
    wtBy p (combine op t1 t2)
      = (t1.map (fun r => (t2.map (fun s => if p (op r.1 s.1) then r.2 * s.2 else 0)).sum)).sum := by
  unfold combine
  rw [wtBy_pushforward]
  exact wtBy_pairs (fun k : σ × σ => p (op k.1 k.2)) Prod.mk t1 t2

theorem mass_combine (op : σ → σ → τ) (t1 t2 : Tab σ α) :
    mass (combine op t1 t2) = mass t1 * mass t2 := by
  unfold combine
  rw [mass_pushforward]
  exact mass_pairs Prod.mk t1 t2

theorem wtBy_matmul (p : List σ → Prop) [DecidablePred p] (t1 t2 : Tab σ α) :
    wtBy p (matmul t1 t2)
      = (t1.map (fun r => (t2.map (fun s => if p [r.1, s.1] then r.2 * s.2 else 0)).sum)).sum :=
  wtBy_pairs p (fun a b => [a, b]) t1 t2

theorem mass_matmul (t1 t2 : Tab σ α) : mass (matmul t1 t2) = mass t1 * mass t2 :=
  mass_pairs (fun a b => [a, b]) t1 t2

theorem keys_matmul_nodup (t1 t2 : Tab σ α) (h1 : (keys t1).Nodup) (h2 : (keys t2).Nodup) :
    (keys (matmul t1 t2)).Nodup :=
  keys_pairs_nodup (fun a b => [a, b]) t1 t2 h1 h2 (fun a _ a' _ b _ b' _ e => by
    simp only [List.cons.injEq, and_true] at e; exact e)

theorem lookupD_matmul (t1 t2 : Tab σ α) (h1 : (keys t1).Nodup) (h2 : (keys t2).Nodup) (a b : σ) :
    lookupD 0 (matmul t1 t2) [a, b] = lookupD 0 t1 a * lookupD 0 t2 b := by
  rw [lookupD_eq_wtBy (keys_matmul_nodup t1 t2 h1 h2), lookupD_eq_wtBy h1, lookupD_eq_wtBy h2]
  exact wtBy_pairs_rect _ (fun a b => [a, b]) _ _ t1 t2 (fun _ _ _ _ => by simp)

end Combine

/-! ## `productTabs` / `productDistribution` -/

section Product
variable {σ α : Type} [DecidableEq σ] [CommSemiring α]

theorem productTabs_nil : productTabs ([] : List (Tab (List σ) α)) = [([], 1)] := rfl

theorem productTabs_cons (t : Tab (List σ) α) (rest : List (Tab (List σ) α)) :
    productTabs (t :: rest)
      = t.flatMap (fun r => (productTabs rest).map (fun s => (r.1 ++ s.1, r.2 * s.2))) := rfl

theorem mem_keys_pairs {κ₁ κ₂ κ : Type} (G : κ₁ → κ₂ → κ) (t1 : Tab κ₁ α) (t2 : Tab κ₂ α)
    (k : κ) :
    k ∈ keys (t1.flatMap (fun r => t2.map (fun s => (G r.1 s.1, r.2 * s.2))))
      ↔ ∃ a ∈ keys t1, ∃ b ∈ keys t2, G a b = k := by
  rw [keys_pairs]
  simp [List.mem_flatMap]

theorem mass_productTabs (ts : List (Tab (List σ) α)) :
    mass (productTabs ts) = (ts.map mass).prod := by
  induction ts with
  | nil => simp [productTabs_nil, mass]
  | cons t rest ih =>
    rw [productTabs_cons, mass_pairs (fun a b : List σ => a ++ b), ih, List.map_cons,
      List.prod_cons]

theorem wtBy_productTabs_single (p : List σ → Prop) [DecidablePred p] (t : Tab (List σ) α) :
    wtBy p (productTabs [t]) = wtBy p t := by
  rw [productTabs_cons, productTabs_nil, wtBy_pairs p (fun a b : List σ => a ++ b)]
  simp [wtBy]

theorem keys_productTabs_single (t : Tab (List σ) α) : keys (productTabs [t]) = keys t := by
  rw [productTabs_cons, productTabs_nil, keys_pairs (fun a b : List σ => a ++ b)]
  simp [keys]

/-- Value at a concatenation: splits off the first factor when its outcomes have the length
of the first block. -/
theorem wtBy_productTabs_cons_eq (t : Tab (List σ) α) (rest : List (Tab (List σ) α))
    (o s : List σ) (hlen : ∀ k ∈ keys t, k.length = o.length) :
    wtBy (fun k => k = o ++ s) (productTabs (t :: rest))
      = wtBy (fun k => k = o) t * wtBy (fun k => k = s) (productTabs rest) := by
  rw [productTabs_cons]
  apply wtBy_pairs_rect _ (fun a b : List σ => a ++ b)
  intro a ha b _
  constructor
  · intro e; exact List.append_inj e (hlen a ha)
  · rintro ⟨rfl, rfl⟩; rfl

/-- Lengths of the outcomes of a product add up. -/
theorem length_keys_productTabs (ts : List (Tab (List σ) α)) (ns : List Nat)
    (h : List.Forall₂ (fun t n => ∀ k ∈ keys t, k.length = n) ts ns) :
    ∀ k ∈ keys (productTabs ts), k.length = ns.sum := by
  induction h with
  | nil => intro k hk; simp [productTabs_nil, keys] at hk; simp [hk]
  | cons hx _ ih =>
    intro k hk
    rw [productTabs_cons, mem_keys_pairs (fun a b : List σ => a ++ b)] at hk
    obtain ⟨a, ha, b, hb, rfl⟩ := hk
    rw [List.length_append, hx a ha, ih b hb, List.sum_cons]

/-- A product of tables with duplicate-free keys and outcomes of fixed lengths lists each
outcome once. -/
theorem keys_productTabs_nodup (ts : List (Tab (List σ) α))
    (h : ∀ t ∈ ts, (keys t).Nodup ∧ ∃ n, ∀ k ∈ keys t, k.length = n) :
    (keys (productTabs ts)).Nodup := by
  induction ts with
  | nil => simp [productTabs_nil, keys]
  | cons t rest ih =>
    rw [productTabs_cons]
    obtain ⟨hnd, n, hn⟩ := h t (by simp)
    apply keys_pairs_nodup (fun a b : List σ => a ++ b) _ _ hnd
      (ih (fun t' ht' => h t' (List.mem_cons_of_mem _ ht')))
    intro a ha a' ha' b _ b' _ e
    exact List.append_inj e (by rw [hn a ha, hn a' ha'])

/-- **Value at a concatenation of blocks.** -/
theorem lookupD_productTabs (ts : List (Tab (List σ) α)) (os : List (List σ))
    (h : List.Forall₂ (fun t o => (keys t).Nodup ∧ ∀ k ∈ keys t, k.length = o.length) ts os) :
    lookupD 0 (productTabs ts) os.flatten
      = (List.zipWith (fun t o => lookupD 0 t o) ts os).prod := by
  have hall : ∀ ts os, List.Forall₂ (fun (t : Tab (List σ) α) (o : List σ) =>
      (keys t).Nodup ∧ ∀ k ∈ keys t, k.length = o.length) ts os →
      ∀ t ∈ ts, (keys t).Nodup ∧ ∃ n, ∀ k ∈ keys t, k.length = n := by
    intro ts os h
    induction h with
    | nil => simp
    | cons hx _ ih =>
      intro t ht
      rcases List.mem_cons.mp ht with e | ht
      · subst e; exact ⟨hx.1, _, hx.2⟩
      · exact ih t ht
  induction h with
  | nil => simp [productTabs_nil, lookupD, lookup?]
  | @cons t o ts os hx hrest ih =>
    have hnd := keys_productTabs_nodup (t :: ts) (hall _ _ (List.Forall₂.cons hx hrest))
    have hnd' := keys_productTabs_nodup ts (hall _ _ hrest)
    rw [List.flatten_cons, lookupD_eq_wtBy hnd, wtBy_productTabs_cons_eq t ts o _ hx.2,
      ← lookupD_eq_wtBy hx.1, ← lookupD_eq_wtBy hnd', ih, List.zipWith_cons_cons, List.prod_cons]

/-- **Marginal of a product on its first block**: the first factor, scaled by the mass of the
rest. -/
theorem wtBy_productTabs_first (p : List σ → Prop) [DecidablePred p] (t : Tab (List σ) α)
    (rest : List (Tab (List σ) α)) (n : Nat) (hlen : ∀ k ∈ keys t, k.length = n) :
    wtBy p (pushforward (project (List.range n)) (productTabs (t :: rest)))
      = wtBy p t * mass (productTabs rest) := by
  rw [wtBy_pushforward, productTabs_cons, ← wtBy_true]
  apply wtBy_pairs_rect _ (fun a b : List σ => a ++ b)
  intro a ha b _
  rw [project_range, ← hlen a ha, List.take_left]
  simp

/-- **Marginal of a product on the remaining blocks**: the product of the rest, scaled by
the mass of the first factor. -/
theorem wtBy_productTabs_rest (p : List σ → Prop) [DecidablePred p] (t : Tab (List σ) α)
    (rest : List (Tab (List σ) α)) (n m : Nat) (hlen : ∀ k ∈ keys t, k.length = n)
    (hrest : ∀ k ∈ keys (productTabs rest), k.length = m) :
    wtBy p (pushforward (project (List.range' n m)) (productTabs (t :: rest)))
      = mass t * wtBy p (productTabs rest) := by
  rw [wtBy_pushforward, productTabs_cons, ← wtBy_true]
  apply wtBy_pairs_rect _ (fun a b : List σ => a ++ b)
  intro a ha b hb
  rw [project_range', ← hlen a ha, List.drop_left, List.take_of_length_le (by rw [hrest b hb])]
  simp

theorem productDistribution_eq (groups : List (List Nat)) (t : Tab (List σ) α) :
    productDistribution groups t
      = productTabs (groups.map (fun g => pushforward (project g) t)) := rfl

theorem mass_productDistribution (groups : List (List Nat)) (t : Tab (List σ) α) :
    mass (productDistribution groups t) = mass t ^ groups.length := by
  rw [productDistribution_eq, mass_productTabs, List.map_map]
  have : (mass ∘ fun g => pushforward (project g) t) = fun _ : List Nat => mass t := by
    funext g; exact mass_pushforward _ _
  rw [this, List.map_const', List.prod_replicate]

end Product

/-! ## `mixture`, `mixture2` -/

section Mixture
variable {σ α : Type} [DecidableEq σ] [Semiring α]

theorem mixture_eq (ts : List (Tab σ α)) (w : List α) :
    mixture ts w = (dedup (ts.flatMap keys)).map (fun o =>
      (o, (List.zipWith (fun t wi => wi * lookupD 0 t o) ts w).sum)) := by
  unfold mixture
  apply List.map_congr_left
  intro o _
  rw [lsum_eq_sum]

theorem keys_mixture (ts : List (Tab σ α)) (w : List α) :
    keys (mixture ts w) = dedup (ts.flatMap keys) := by
  rw [mixture_eq, keys_map_graph]

/-- The weighted sum vanishes at outcomes no component stores. -/
theorem zipWith_sum_eq_zero (ts : List (Tab σ α)) (w : List α) (o : σ)
    (h : ∀ t ∈ ts, o ∉ keys t) :
    (List.zipWith (fun t wi => wi * lookupD 0 t o) ts w).sum = 0 := by
  apply List.sum_eq_zero
  intro x hx
  obtain ⟨i, hi, rfl⟩ := List.mem_iff_getElem.mp hx
  rw [List.getElem_zipWith]
  rw [List.length_zipWith] at hi
  rw [lookupD_of_not_mem 0 (h _ (List.getElem_mem (by omega))), mul_zero]

/-- **Value of a mixture**: `Σ_i w_i · P_i(o)` for every outcome (absent = 0). -/
theorem lookupD_mixture (ts : List (Tab σ α)) (w : List α) (o : σ) :
    lookupD 0 (mixture ts w) o = (List.zipWith (fun t wi => wi * lookupD 0 t o) ts w).sum := by
  rw [mixture_eq]
  unfold lookupD
  rw [lookup?_map_graph]
  by_cases h : o ∈ dedup (ts.flatMap keys)
  · rw [if_pos h]; rfl
  · rw [if_neg h]
    symm
    apply zipWith_sum_eq_zero
    intro t ht ho
    exact h (mem_dedup.mpr (List.mem_flatMap.mpr ⟨t, ht, ho⟩))

/-- Exchange of the two sums of a mixture over any list of outcomes. -/
theorem sum_zipWith_exchange (outs : List σ) (ts : List (Tab σ α)) (w : List α) :
    (outs.map (fun o => (List.zipWith (fun t wi => wi * lookupD 0 t o) ts w).sum)).sum
      = (List.zipWith (fun t wi => wi * (outs.map (fun o => lookupD 0 t o)).sum) ts w).sum := by
  induction ts generalizing w with
  | nil => simp
  | cons t ts ih =>
    cases w with
    | nil => simp
    | cons wi w =>
      simp only [List.zipWith_cons_cons, List.sum_cons]
      rw [List.sum_map_add, ih, List.sum_map_mul_left]

theorem zipWith_congr_left {β γ δ : Type} (f g : β → γ → δ) (l : List β) (w : List γ)
    (h : ∀ x ∈ l, ∀ y, f x y = g x y) : List.zipWith f l w = List.zipWith g l w := by
  induction l generalizing w with
  | nil => simp
  | cons x l ih =>
    cases w with
    | nil => simp
    | cons y w =>
      rw [List.zipWith_cons_cons, List.zipWith_cons_cons, h x (by simp) y,
        ih w (fun x' hx' => h x' (List.mem_cons_of_mem _ hx'))]

/-- **Mass of a mixture**: `Σ_i w_i · mass(t_i)` when each component lists each outcome once. -/
theorem mass_mixture (ts : List (Tab σ α)) (w : List α) (hnd : ∀ t ∈ ts, (keys t).Nodup) :
    mass (mixture ts w) = (List.zipWith (fun t wi => wi * mass t) ts w).sum := by
  rw [mixture_eq, ← wtBy_true, wtBy_map_graph]
  simp only [if_true]
  rw [sum_zipWith_exchange]
  apply congrArg
  apply zipWith_congr_left
  intro t ht wi
  congr 1
  rw [← sum_map_wtBy_singleton (nodup_dedup (ts.flatMap keys)) t (fun k hk =>
    mem_dedup.mpr (List.mem_flatMap.mpr ⟨t, ht, hk⟩))]
  apply congrArg
  apply List.map_congr_left
  intro o _
  exact lookupD_eq_wtBy (hnd t ht) o

theorem zipWith_mul_one_sum (ts : List (Tab σ α)) (w : List α) (hlen : ts.length = w.length)
    (h1 : ∀ t ∈ ts, mass t = 1) :
    (List.zipWith (fun t wi => wi * mass t) ts w).sum = w.sum := by
  induction ts generalizing w with
  | nil =>
    cases w with
    | nil => simp
    | cons _ _ => simp at hlen
  | cons t ts ih =>
    cases w with
    | nil => simp at hlen
    | cons wi w =>
      rw [List.zipWith_cons_cons, List.sum_cons, List.sum_cons, h1 t (by simp), mul_one,
        ih w (by simpa using hlen) (fun t' ht' => h1 t' (List.mem_cons_of_mem _ ht'))]

/-- Rows of `mixture2`, position-wise. -/
theorem getElem?_mixture2 (t : Tab σ α) (ts : List (Tab σ α)) (w : List α) (j : Nat) :
    (mixture2 (t :: ts) w)[j]?
      = (t[j]?).map (fun r =>
          (r.1, (List.zipWith (fun ti wi => wi * (vals ti).getD j 0) (t :: ts) w).sum)) := by
  unfold mixture2
  simp only [List.getElem?_map, keys]
  by_cases hj : j < t.length
  · have h1 : (List.zip (List.map (fun x => x.1) t) (List.range t.length))[j]?
        = some (t[j].1, j) := by
      rw [List.getElem?_eq_some_iff]
      refine ⟨by simp [hj], ?_⟩
      simp
    rw [h1, List.getElem?_eq_getElem hj]
    simp only [Option.map_some, lsum_eq_sum]
  · have h1 : (List.zip (List.map (fun x => x.1) t) (List.range t.length))[j]? = none := by
      rw [List.getElem?_eq_none_iff]; simp; omega
    rw [h1, List.getElem?_eq_none (by omega)]
    rfl

theorem length_mixture2 (t : Tab σ α) (ts : List (Tab σ α)) (w : List α) :
    (mixture2 (t :: ts) w).length = t.length := by
  unfold mixture2; simp [keys]

end Mixture

/-! ## `uniformTab`, `noisyTab` -/

section Uniform
variable {σ α : Type} [DecidableEq σ] [Field α]

theorem lookupD_uniformTab (ofNat : Nat → α) (outs : List σ) (o : σ) :
    lookupD 0 (uniformTab ofNat outs) o = if o ∈ outs then 1 / ofNat outs.length else 0 := by
  unfold uniformTab lookupD
  rw [lookup?_map_graph]
  split <;> rfl

theorem keys_uniformTab (ofNat : Nat → α) (outs : List σ) :
    keys (uniformTab ofNat outs) = outs := by
  unfold uniformTab; rw [keys_map_graph]

theorem mass_uniformTab (ofNat : Nat → α) (outs : List σ) :
    mass (uniformTab ofNat outs) = outs.length • (1 / ofNat outs.length) := by
  unfold uniformTab
  rw [mass_eq_sum]
  simp [vals, Function.comp_def, List.map_const', List.sum_replicate]

theorem mass_uniformTab_cast [CharZero α] (outs : List σ) (hne : outs ≠ []) :
    mass (uniformTab (fun n : Nat => (n : α)) outs) = 1 := by
  rw [mass_uniformTab, nsmul_eq_mul]
  have : (outs.length : α) ≠ 0 := by
    rw [Nat.cast_ne_zero]; exact fun h => hne (List.length_eq_zero_iff.mp h)
  field_simp

theorem lookupD_noisyTab (ofNat : Nat → α) (alphabets : List (List σ)) (noise : α)
    (t : Tab (List σ) α) (o : List σ) :
    lookupD 0 (noisyTab ofNat alphabets noise t) o
      = (1 - noise) * lookupD 0 t o
        + noise * (if o ∈ cartesian alphabets then 1 / ofNat (cartesian alphabets).length else 0) := by
  unfold noisyTab
  rw [lookupD_mixture]
  simp only [List.zipWith_cons_cons, List.zipWith_nil_right, List.sum_cons, List.sum_nil,
    add_zero]
  rw [lookupD_uniformTab]
  by_cases h : o ∈ cartesian alphabets
  · rw [if_pos h, if_pos h]
  · rw [if_neg h, if_neg h]

end Uniform

/-! ## `erasureTab` -/

section Erasure
variable {σ α : Type} [DecidableEq σ] [CommRing α]

/-- The erasure channel applied to one outcome: every symbol is kept with weight `1 - ε` or
replaced by `e` with weight `ε` (the local `expand` of `erasureTab`). -/
def erasureExpand (e : σ) (eps : α) (o : List σ) : Tab (List σ) α :=
  o.foldr (fun s acc =>
    acc.flatMap (fun r => [(s :: r.1, (1 - eps) * r.2), (e :: r.1, eps * r.2)])) [([], 1)]

theorem erasureTab_eq (e : σ) (eps : α) (t : Tab (List σ) α) :
    erasureTab e eps t
      = pushforward (fun o => o)
          (t.flatMap (fun r => (erasureExpand e eps r.1).map (fun x => (x.1, r.2 * x.2)))) := rfl

theorem erasureExpand_nil (e : σ) (eps : α) : erasureExpand e eps [] = [([], 1)] := rfl

theorem erasureExpand_cons (e : σ) (eps : α) (s : σ) (o : List σ) :
    erasureExpand e eps (s :: o)
      = (erasureExpand e eps o).flatMap
          (fun r => [(s :: r.1, (1 - eps) * r.2), (e :: r.1, eps * r.2)]) := rfl

theorem wtBy_split_rows (q : List σ → Prop) [DecidablePred q] (s e : σ) (a b : α)
    (acc : Tab (List σ) α) :
    wtBy q (acc.flatMap (fun r => [(s :: r.1, a * r.2), (e :: r.1, b * r.2)]))
      = a * wtBy (fun k => q (s :: k)) acc + b * wtBy (fun k => q (e :: k)) acc := by
  induction acc with
  | nil => simp
  | cons r acc ih =>
    rw [List.flatMap_cons, wtBy_append, ih, wtBy_cons, wtBy_cons, wtBy_cons, wtBy_cons]
    by_cases h1 : q (s :: r.1) <;> by_cases h2 : q (e :: r.1) <;> simp [h1, h2] <;> ring

/-- **Symbol-wise law of the erasure channel.** -/
theorem wtBy_erasureExpand_cons (q : List σ → Prop) [DecidablePred q] (e : σ) (eps : α) (s : σ)
    (o : List σ) :
    wtBy q (erasureExpand e eps (s :: o))
      = (1 - eps) * wtBy (fun k => q (s :: k)) (erasureExpand e eps o)
        + eps * wtBy (fun k => q (e :: k)) (erasureExpand e eps o) := by
  rw [erasureExpand_cons, wtBy_split_rows]

theorem mass_erasureExpand (e : σ) (eps : α) (o : List σ) : mass (erasureExpand e eps o) = 1 := by
  induction o with
  | nil => simp [erasureExpand_nil, mass]
  | cons s o ih =>
    rw [← wtBy_true, wtBy_erasureExpand_cons, wtBy_true, ih]; ring

/-- Event weights after the erasure channel. -/
theorem wtBy_erasureTab (q : List σ → Prop) [DecidablePred q] (e : σ) (eps : α)
    (t : Tab (List σ) α) :
    wtBy q (erasureTab e eps t)
      = (t.map (fun r => r.2 * wtBy q (erasureExpand e eps r.1))).sum := by
  rw [erasureTab_eq, wtBy_pushforward, wtBy_flatMap]
  apply congrArg
  apply List.map_congr_left
  intro r _
  exact wtBy_map_key_mul_left q (fun k => k) r.2 (erasureExpand e eps r.1)

theorem mass_erasureTab (e : σ) (eps : α) (t : Tab (List σ) α) :
    mass (erasureTab e eps t) = mass t := by
  rw [← wtBy_true, wtBy_erasureTab, mass_eq_sum]
  simp only [wtBy_true, mass_erasureExpand, mul_one, vals]

/-- Single-symbol outcomes: the symbol survives with weight `1 - ε`, and the erasure symbol
collects `ε` times the total mass. -/
theorem wtBy_erasureTab_single (q : List σ → Prop) [DecidablePred q] (e : σ) (eps : α)
    (t : Tab (List σ) α) (h1 : ∀ k ∈ keys t, k.length = 1) :
    wtBy q (erasureTab e eps t)
      = (1 - eps) * wtBy q t + eps * (if q [e] then mass t else 0) := by
  rw [wtBy_erasureTab]
  induction t with
  | nil => simp [mass]
  | cons r t ih =>
    have hr : r.1.length = 1 := h1 r.1 (by simp)
    obtain ⟨s, hs⟩ := List.length_eq_one_iff.mp hr
    rw [List.map_cons, List.sum_cons, ih (fun k hk => h1 k (by simp [hk])), wtBy_cons, hs,
      wtBy_erasureExpand_cons, erasureExpand_nil]
    have hm : mass (r :: t) = r.2 + mass t := by
      rw [mass_eq_sum, mass_eq_sum]; simp [vals]
    rw [hm]
    simp only [wtBy_cons, wtBy_nil, add_zero]
    by_cases hq1 : q [s] <;> by_cases hq2 : q [e] <;> simp [hq1, hq2] <;> ring

end Erasure

/-! ## Statistics: `meanTab`, `centralMoment` -/

section Stats
variable {α : Type} [CommRing α]

theorem npow_eq_pow (x : α) (k : Nat) : npow x k = x ^ k := by
  induction k with
  | zero => simp [npow]
  | succ k ih => rw [npow, ih, pow_succ, mul_comm]

theorem meanTab_eq (t : Tab α α) : meanTab t = (t.map (fun r => r.1 * r.2)).sum := by
  unfold meanTab; rw [lsum_eq_sum]

theorem centralMoment_eq (t : Tab α α) (k : Nat) :
    centralMoment t k = (t.map (fun r => (r.1 - meanTab t) ^ k * r.2)).sum := by
  unfold centralMoment
  simp only [lsum_eq_sum, npow_eq_pow]

theorem sum_shift_one (m : α) (t : Tab α α) :
    (t.map (fun r => (r.1 - m) ^ 1 * r.2)).sum
      = (t.map (fun r => r.1 * r.2)).sum - m * (vals t).sum := by
  induction t with
  | nil => simp [vals]
  | cons r t ih =>
    simp only [List.map_cons, List.sum_cons, vals] at ih ⊢
    rw [ih]; ring

theorem sum_shift_two (m : α) (t : Tab α α) :
    (t.map (fun r => (r.1 - m) ^ 2 * r.2)).sum
      = (t.map (fun r => r.1 ^ 2 * r.2)).sum - 2 * m * (t.map (fun r => r.1 * r.2)).sum
        + m ^ 2 * (vals t).sum := by
  induction t with
  | nil => simp [vals]
  | cons r t ih =>
    simp only [List.map_cons, List.sum_cons, vals] at ih ⊢
    rw [ih]; ring

theorem meanTab_const (t : Tab α α) (c : α) (h : ∀ r ∈ t, r.1 = c) :
    meanTab t = c * mass t := by
  rw [meanTab_eq, mass_eq_sum]
  induction t with
  | nil => simp [vals]
  | cons r t ih =>
    simp only [List.map_cons, List.sum_cons, vals] at ih ⊢
    rw [ih (fun x hx => h x (List.mem_cons_of_mem _ hx)), h r (by simp)]; ring

end Stats

/-! ## `modeTab` -/

section Mode
variable {σ α : Type} [LinearOrder α] [Zero α]

/-- The running maximum of `modeTab`. -/
theorem foldMax_spec (t : Tab σ α) (m0 : α) :
    m0 ≤ t.foldl (fun m r => if m < r.2 then r.2 else m) m0
      ∧ (∀ r ∈ t, r.2 ≤ t.foldl (fun m r => if m < r.2 then r.2 else m) m0)
      ∧ (t.foldl (fun m r => if m < r.2 then r.2 else m) m0 = m0
          ∨ ∃ r ∈ t, r.2 = t.foldl (fun m r => if m < r.2 then r.2 else m) m0) := by
  induction t generalizing m0 with
  | nil => simp
  | cons x t ih =>
    rw [List.foldl_cons]
    obtain ⟨h1, h2, h3⟩ := ih (if m0 < x.2 then x.2 else m0)
    have hm0 : m0 ≤ (if m0 < x.2 then x.2 else m0) := by
      split
      · exact le_of_lt ‹_›
      · exact le_refl _
    have hx : x.2 ≤ (if m0 < x.2 then x.2 else m0) := by
      split
      · exact le_refl _
      · exact not_lt.mp ‹_›
    refine ⟨le_trans hm0 h1, ?_, ?_⟩
    · intro r hr
      rcases List.mem_cons.mp hr with e | hr
      · subst e; exact le_trans hx h1
      · exact h2 r hr
    · rcases h3 with h3 | ⟨r, hr, h3⟩
      · by_cases hlt : m0 < x.2
        · right; exact ⟨x, by simp, by rw [h3, if_pos hlt]⟩
        · left; rw [h3, if_neg hlt]
      · right; exact ⟨r, List.mem_cons_of_mem _ hr, h3⟩

theorem mem_modeTab (t : Tab σ α) (o : σ) :
    o ∈ modeTab t ↔ ∃ v, (o, v) ∈ t
      ∧ ¬ v < t.foldl (fun m r => if m < r.2 then r.2 else m) 0 := by
  unfold modeTab
  simp only [List.mem_map, List.mem_filter, Bool.not_eq_eq_eq_not, Bool.not_true,
    decide_eq_false_iff_not]
  constructor
  · rintro ⟨r, ⟨hr, hlt⟩, rfl⟩; exact ⟨r.2, hr, hlt⟩
  · rintro ⟨v, hv, hlt⟩; exact ⟨(o, v), ⟨hv, hlt⟩, rfl⟩

end Mode

/-! ## `cumVals` and the median -/

section Cum
variable {σ α : Type} [AddCommMonoid α]

/-- Running sums started from `s`. -/
def prefixSums (s : α) : List α → List α
  | [] => []
  | x :: l => (s + x) :: prefixSums (s + x) l

theorem cumFold_eq (t : Tab σ α) (acc : List α) (s : α) :
    t.foldl (fun (a : List α × α) r => (a.1 ++ [a.2 + r.2], a.2 + r.2)) (acc, s)
      = (acc ++ prefixSums s (vals t), s + (vals t).sum) := by
  induction t generalizing acc s with
  | nil => simp [prefixSums, vals]
  | cons r t ih =>
    rw [List.foldl_cons, ih]
    simp [prefixSums, vals, add_assoc]

theorem cumVals_eq (t : Tab σ α) : cumVals t = prefixSums 0 (vals t) := by
  unfold cumVals; rw [cumFold_eq]; simp

theorem length_prefixSums (s : α) (l : List α) : (prefixSums s l).length = l.length := by
  induction l generalizing s with
  | nil => rfl
  | cons x l ih => simp [prefixSums, ih]

theorem getElem?_prefixSums (s : α) (l : List α) (j : Nat) (hj : j < l.length) :
    (prefixSums s l)[j]? = some (s + (l.take (j + 1)).sum) := by
  induction l generalizing s j with
  | nil => simp at hj
  | cons x l ih =>
    cases j with
    | zero => simp [prefixSums]
    | succ j =>
      have := ih (s + x) j (by simpa using hj)
      simp only [prefixSums, List.getElem?_cons_succ]
      rw [this, List.take_succ_cons, List.sum_cons, add_assoc]

end Cum

section Median
variable {α : Type} [Field α] [LinearOrder α]

/-- `numpy`'s `argmax` of a Boolean array: index of the first `True`, `0` if there is none. -/
def argmaxBool (q : α → Bool) (l : List α) : Nat := if l.any q then l.findIdx q else 0

/-- `dit.algorithms.stats.median` for a scalar numeric distribution: the mean of the first
outcome whose cumulative probability exceeds `1/2` and the first whose cumulative probability
reaches `1/2`. -/
def medianTab (t : Tab α α) : α :=
  ((keys t).getD (argmaxBool (fun v => decide (1 / 2 < v)) (cumVals t)) 0
    + (keys t).getD (argmaxBool (fun v => decide (1 / 2 ≤ v)) (cumVals t)) 0) / 2

theorem argmaxBool_spec (q : α → Bool) (l : List α) (h : ∃ v ∈ l, q v = true) :
    ∃ hj : argmaxBool q l < l.length, q (l[argmaxBool q l]) = true
      ∧ ∀ i (hi : i < argmaxBool q l), q (l[i]'(by omega)) = false := by
  have hany : l.any q = true := by
    rw [List.any_eq_true]; exact h
  unfold argmaxBool
  simp only [hany, if_true]
  refine ⟨List.findIdx_lt_length_of_exists h, List.findIdx_getElem, ?_⟩
  intro i hi
  have := List.not_of_lt_findIdx hi
  simpa using this

end Median

section MedianSpec
variable {α : Type} [Field α] [LinearOrder α]

theorem length_cumVals {σ : Type} (t : Tab σ α) : (cumVals t).length = t.length := by
  rw [cumVals_eq, length_prefixSums]; simp [vals]

theorem getElem_cumVals {σ : Type} (t : Tab σ α) (j : Nat) (hj : j < (cumVals t).length) :
    (cumVals t)[j] = ((vals t).take (j + 1)).sum := by
  have hj' : j < (vals t).length := by
    rw [length_cumVals] at hj; simpa [vals] using hj
  have h := getElem?_prefixSums (0 : α) (vals t) j hj'
  rw [← cumVals_eq, zero_add] at h
  exact (List.getElem_eq_iff hj).mpr h

/-- The index `argmaxBool q (cumVals t)` is the first position whose cumulative value
satisfies `q`. -/
theorem argmax_cumVals (q : α → Bool) (t : Tab α α) (h : ∃ v ∈ cumVals t, q v = true) :
    argmaxBool q (cumVals t) < t.length
      ∧ q (((vals t).take (argmaxBool q (cumVals t) + 1)).sum) = true
      ∧ ∀ i, i < argmaxBool q (cumVals t) → q (((vals t).take (i + 1)).sum) = false := by
  obtain ⟨hj, h1, h2⟩ := argmaxBool_spec q (cumVals t) h
  refine ⟨by rw [← length_cumVals]; exact hj, ?_, ?_⟩
  · rw [← getElem_cumVals t _ hj]; exact h1
  · intro i hi
    rw [← getElem_cumVals t i (by omega)]; exact h2 i hi

end MedianSpec

end Dit.Lemmas.Constructors
