/-
Helper lemmas for C11 (table-operation part): `modifyOutcomes`, `insertRvf`, `productTabs`,
`productDistribution`, `mixture`, `mixture2`, `combine`, `matmul`, `uniformTab`, `erasureTab`,
`noisyTab`, `meanTab`, `centralMoment`, `modeTab`, `cumVals` of Core/Constructors.lean.
Property theorems: Props/C11.lean.
-/
import DitModel.Core.Constructors
import DitModel.Lemmas.Table
import DitModel.Lemmas.Cond
import Mathlib.Algebra.Order.Field.Basic
import Mathlib.Algebra.BigOperators.Ring.List
import Mathlib.Algebra.BigOperators.Group.List.Lemmas
import Mathlib.Algebra.CharZero.Defs
import Mathlib.Tactic.Ring
import Mathlib.Tactic.Linarith

set_option linter.unusedSectionVars false

namespace Dit.Lemmas.Constructors
open Dit Dit.Lemmas.Table Dit.Lemmas.Cond

/-! ## `project` onto ranges -/

section ProjectRange
variable {σ : Type}

theorem project_append (g h : List Nat) (o : List σ) :
    project (g ++ h) o = project g o ++ project h o := by
  simp [project, List.filterMap_append]

/-- Projecting onto the positions `s, s+1, …, s+k-1` is `drop s` then `take k`. -/
theorem project_range' (s k : Nat) (o : List σ) :
    project (List.range' s k) o = (o.drop s).take k := by
  induction k generalizing s with
  | zero => simp [project]
  | succ k ih =>
    rw [List.range'_succ, project_cons, ih]
    by_cases hs : s < o.length
    · rw [List.getElem?_eq_getElem hs]
      simp only
      rw [List.drop_eq_getElem_cons hs, List.take_succ_cons]
    · rw [List.getElem?_eq_none (by omega)]
      simp only
      rw [List.drop_eq_nil_of_le (by omega), List.drop_eq_nil_of_le (by omega)]
      simp

theorem project_range (k : Nat) (o : List σ) : project (List.range k) o = o.take k := by
  rw [List.range_eq_range', project_range']; simp

end ProjectRange

/-! ## `insertRvf` -/

section Insert
variable {σ α : Type}

/-- The new outcome that `insert_rvf` builds from `o`. -/
def insOut (f : List σ → List σ) (index : Option Nat) (o : List σ) : List σ :=
  match index with
  | none => o ++ f o
  | some i => o.take i ++ f o ++ o.drop i

/-- Positions of the old variables inside the new outcome (`n` old variables, `m` new ones). -/
def oldPos (index : Option Nat) (n m : Nat) : List Nat :=
  match index with
  | none => List.range n
  | some i => List.range i ++ List.range' (i + m) (n - i)

theorem insertRvf_eq_map (f : List σ → List σ) (index : Option Nat) (t : Tab (List σ) α) :
    insertRvf f index t = t.map (fun r => (insOut f index r.1, r.2)) := by
  cases index <;> rfl

theorem keys_insertRvf (f : List σ → List σ) (index : Option Nat) (t : Tab (List σ) α) :
    keys (insertRvf f index t) = (keys t).map (insOut f index) := by
  rw [insertRvf_eq_map]; simp [keys, Function.comp_def]

theorem vals_insertRvf (f : List σ → List σ) (index : Option Nat) (t : Tab (List σ) α) :
    vals (insertRvf f index t) = vals t := by
  rw [insertRvf_eq_map]; simp [vals, Function.comp_def]

/-- Projecting the new outcome back onto the old positions recovers the old outcome. -/
theorem project_oldPos_insOut (f : List σ → List σ) (index : Option Nat) (n m : Nat)
    (o : List σ) (hn : o.length = n) (hm : (f o).length = m) (hi : ∀ i, index = some i → i ≤ n) :
    project (oldPos index n m) (insOut f index o) = o := by
  cases index with
  | none =>
    show project (List.range n) (o ++ f o) = o
    rw [project_range, ← hn]; simp
  | some i =>
    have hin : i ≤ n := hi i rfl
    show project (List.range i ++ List.range' (i + m) (n - i)) (o.take i ++ f o ++ o.drop i) = o
    have hlt : (o.take i).length = i := by rw [List.length_take]; omega
    rw [project_append, project_range, project_range']
    have e1 : (o.take i ++ f o ++ o.drop i).take i = o.take i := by
      rw [List.append_assoc, List.take_append_of_le_length (by omega), List.take_take]
      simp
    have e2 : (o.take i ++ f o ++ o.drop i).drop (i + m) = o.drop i := by
      have : (o.take i ++ f o).length = i + m := by rw [List.length_append, hlt, hm]
      rw [← this, List.drop_left]
    rw [e1, e2, List.take_of_length_le (by rw [List.length_drop]; omega), List.take_append_drop]

/-- On outcomes of a common length (and, for an insertion position, with new symbols of a
common length) the map `o ↦ new outcome` is injective. -/
theorem insOut_injOn (f : List σ → List σ) (index : Option Nat) (n m : Nat)
    (o o' : List σ) (hn : o.length = n) (hn' : o'.length = n)
    (hm : index ≠ none → (f o).length = m ∧ (f o').length = m)
    (h : insOut f index o = insOut f index o') : o = o' := by
  cases index with
  | none =>
    exact (List.append_inj h (by rw [hn, hn'])).1
  | some i =>
    obtain ⟨hm1, hm2⟩ := hm (by simp)
    have h' : o.take i ++ f o ++ o.drop i = o'.take i ++ f o' ++ o'.drop i := h
    have hl : (o.take i).length = (o'.take i).length := by
      rw [List.length_take, List.length_take, hn, hn']
    rw [List.append_assoc, List.append_assoc] at h'
    obtain ⟨h1, h2⟩ := List.append_inj h' hl
    obtain ⟨_, h3⟩ := List.append_inj h2 (by rw [hm1, hm2])
    rw [← List.take_append_drop i o, ← List.take_append_drop i o', h1, h3]

end Insert

section InsertWt
variable {σ α : Type} [DecidableEq σ] [AddCommMonoid α]

theorem wtBy_insertRvf (p : List σ → Prop) [DecidablePred p] (f : List σ → List σ)
    (index : Option Nat) (t : Tab (List σ) α) :
    wtBy p (insertRvf f index t) = wtBy (fun o => p (insOut f index o)) t := by
  rw [insertRvf_eq_map, wtBy_map_key]

theorem insertRvf_keys_nodup (f : List σ → List σ) (index : Option Nat) (n m : Nat)
    (t : Tab (List σ) α) (hnd : (keys t).Nodup) (hn : ∀ k ∈ keys t, k.length = n)
    (hm : index ≠ none → ∀ k ∈ keys t, (f k).length = m) :
    (keys (insertRvf f index t)).Nodup := by
  rw [keys_insertRvf]
  refine hnd.map_on ?_
  intro o ho o' ho' e
  exact insOut_injOn f index n m o o' (hn o ho) (hn o' ho')
    (fun hne => ⟨hm hne o ho, hm hne o' ho'⟩) e

end InsertWt

end Dit.Lemmas.Constructors
