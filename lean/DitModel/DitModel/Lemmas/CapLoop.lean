/-
Helper lemmas for the capacity iteration `Core/CapLoop.lean`
(`dit.algorithms.channelcapacity.channel_capacity`) over `ℝ` with `log2 := Real.logb 2`,
`exp2 := fun x => 2 ^ x`, `ofNat := Nat.cast`.

* list ↔ finite-sum bridge for `capNextQ`, `capNextR`, `capCC`;
* the finitary core of Arimoto's two half-step optimalities for the functional
  `J(r, q) = Σ_{x,y} r_x P(y|x) log₂ (q(x|y) / r_x)`;
* list-level consequences: the posterior, the new input law, the sandwich
  `I(r;P) ≤ cc ≤ I(r';P)`, the loop invariant, the fixed point.
Property theorems are in Props/C13Cap.lean.
-/
import DitModel.Core.CapLoop
import DitModel.Lemmas.Channel

set_option linter.unusedSectionVars false

namespace Dit.Lemmas.CapLoop
open Dit Dit.Lemmas.Table Dit.Lemmas.Channel Finset

/-! ### Positive laws -/

/-- `r` is a probability vector of length `n` all of whose entries are strictly positive
(the uniform start of the iteration is one, and every pass preserves it). -/
structure PosLaw (r : List ℝ) (n : ℕ) : Prop where
  law : IsLaw r n
  pos : ∀ x < n, 0 < vec r x

/-! ### List access -/

theorem getD_range_map {β : Type} (k : ℕ) (g : ℕ → β) (d : β) (y : ℕ) (hy : y < k) :
    ((List.range k).map g).getD y d = g y := by
  simp [List.getD_eq_getElem?_getD, hy]

theorem vec_zipWith {β γ : Type} (f : β → γ → ℝ) (d1 : β) (d2 : γ) (l1 : List β) (l2 : List γ)
    (x : ℕ) (h1 : x < l1.length) (h2 : x < l2.length) :
    vec (List.zipWith f l1 l2) x = f (l1.getD x d1) (l2.getD x d2) := by
  simp [vec, List.getD_eq_getElem?_getD, h1, h2]

/-! ### Unfolding the Core definitions into range sums -/

/-- The (unnormalised) weight of input letter `x` in `next_r`:
`w_x = 2 ^ Σ_y P(y|x) log₂ q(x|y) = Π_y q(x|y)^{P(y|x)}`. -/
noncomputable def capW (P q : List (List ℝ)) (m x : ℕ) : ℝ :=
  (2 : ℝ) ^ (∑ y ∈ range m, ent P x y * Real.logb 2 (ent q y x))

theorem capW_pos (P q : List (List ℝ)) (m x : ℕ) : 0 < capW P q m x :=
  Real.rpow_pos_of_pos (by norm_num) _

theorem capNextR_eq (P q : List (List ℝ)) (n m : ℕ) (hP : IsMat P n m) :
    capNextR (Real.logb 2) (fun x => (2 : ℝ) ^ x) P q
      = (List.range n).map (fun x => capW P q m x / ∑ x' ∈ range n, capW P q m x') := by
  have hw : (List.range P.length).map (fun x => (2 : ℝ) ^ (lsum ((List.range
        (P.getD x []).length).map (fun y => if (P.getD x []).getD y 0 == 0 then 0
          else (P.getD x []).getD y 0 * Real.logb 2 ((q.getD y []).getD x 0)))))
      = (List.range n).map (capW P q m) := by
    rw [hP.len]
    apply List.map_congr_left
    intro x hx
    rw [List.mem_range] at hx
    rw [lsum_eq_sum, sum_range_map, hP.row_len hx]
    unfold capW
    congr 1
    apply sum_congr rfl
    intro y _
    exact guard _ _ _
  have e : capNextR (Real.logb 2) (fun x => (2 : ℝ) ^ x) P q
      = ((List.range P.length).map (fun x => (2 : ℝ) ^ (lsum ((List.range
        (P.getD x []).length).map (fun y => if (P.getD x []).getD y 0 == 0 then 0
          else (P.getD x []).getD y 0 * Real.logb 2 ((q.getD y []).getD x 0)))))).map
        (· / lsum ((List.range P.length).map (fun x => (2 : ℝ) ^ (lsum ((List.range
        (P.getD x []).length).map (fun y => if (P.getD x []).getD y 0 == 0 then 0
          else (P.getD x []).getD y 0 * Real.logb 2 ((q.getD y []).getD x 0))))))) := rfl
  rw [e, hw, lsum_eq_sum, sum_range_map, List.map_map]
  rfl

theorem capNextR_length (P q : List (List ℝ)) (n m : ℕ) (hP : IsMat P n m) :
    (capNextR (Real.logb 2) (fun x => (2 : ℝ) ^ x) P q).length = n := by
  rw [capNextR_eq P q n m hP]; simp

theorem vec_capNextR (P q : List (List ℝ)) (n m : ℕ) (hP : IsMat P n m) (x : ℕ) (hx : x < n) :
    vec (capNextR (Real.logb 2) (fun x => (2 : ℝ) ^ x) P q) x
      = capW P q m x / ∑ x' ∈ range n, capW P q m x' := by
  rw [capNextR_eq P q n m hP, vec_range_map n _ x hx]

/-- `calc_cc` as a double sum (the `nansum` guard agrees with `0 · log₂ _ = 0`). -/
theorem capCC_eq (P q : List (List ℝ)) (r : List ℝ) (n m : ℕ) (hP : IsMat P n m) :
    capCC (Real.logb 2) P q r = ∑ x ∈ range n, ∑ y ∈ range m,
      vec r x * ent P x y * Real.logb 2 (ent q y x / vec r x) := by
  unfold capCC
  simp only [lsum_eq_sum, sum_range_map]
  rw [hP.len]
  apply sum_congr rfl
  intro x hx
  rw [hP.row_len (mem_range.mp hx)]
  apply sum_congr rfl
  intro y _
  exact guard _ _ _

/-- Entries of `next_q`: `q(x|y) = r_x P(y|x) / (rP)_y`. -/
theorem ent_capNextQ (r : List ℝ) (P : List (List ℝ)) (n m : ℕ) (hr : r.length = n)
    (hP : IsMat P n m) (y x : ℕ) (hy : y < m) (hx : x < n) :
    ent (capNextQ r P) y x = vec r x * ent P x y / vec (outputLaw r P) y := by
  have hlen : (outputLaw r P).length = m := outputLaw_length r P n m hP (by omega)
  unfold capNextQ ent
  simp only [hlen]
  rw [getD_range_map m _ [] y hy,
    vec_zipWith _ 0 [] r P x (by omega) (by rw [hP.len]; exact hx)]
  rfl

/-! ### The finitary core: Arimoto's functional `J(r, q) = Σ_{x,y} r_x P_xy log₂ (q_yx / r_x)` -/

section Core
variable {ι κ : Type}

/-- `J(r, q_r)` term: with the posterior `q_yx = r_x P_xy / R_y` the summand is the mutual
information summand. -/
theorem post_term (r P R : ℝ) :
    r * P * Real.logb 2 (r * P / R / r) = r * (P * Real.logb 2 (P / R)) := by
  by_cases h : r = 0
  · simp [h]
  · rw [mul_div_assoc, mul_div_cancel_left₀ _ h, mul_assoc]

theorem gap_term (r P R q : ℝ) (hr : 0 ≤ r) (hP : 0 ≤ P) (hR : r * P ≤ R)
    (hq : q = 0 → r * P = 0) :
    r * P * Real.logb 2 (r * P / (R * q))
      = r * (P * Real.logb 2 (P / R)) - r * P * Real.logb 2 (q / r) := by
  by_cases h1 : r = 0
  · simp [h1]
  by_cases h2 : P = 0
  · simp [h2]
  have hrpos : 0 < r := lt_of_le_of_ne hr (Ne.symm h1)
  have hPpos : 0 < P := lt_of_le_of_ne hP (Ne.symm h2)
  have hRpos : 0 < R := lt_of_lt_of_le (mul_pos hrpos hPpos) hR
  have hqne : q ≠ 0 := fun h => (mul_pos hrpos hPpos).ne' (hq h)
  rw [Real.logb_div (mul_ne_zero h1 h2) (mul_ne_zero hRpos.ne' hqne), Real.logb_mul h1 h2,
    Real.logb_mul hRpos.ne' hqne, Real.logb_div h2 hRpos.ne', Real.logb_div hqne h1]
  ring

/-- **Half-step (a)**: for fixed `r`, every family `q` of sub-probability vectors over `x` that
is non-zero where `r_x P_xy` is has `J(r, q) ≤ I(r; P)`. -/
theorem J_le_mi (s : Finset ι) (t : Finset κ) (r : ι → ℝ) (P : ι → κ → ℝ) (q : κ → ι → ℝ)
    (hr : ∀ x ∈ s, 0 ≤ r x) (hP : ∀ x ∈ s, ∀ y ∈ t, 0 ≤ P x y)
    (hq : ∀ y ∈ t, ∀ x ∈ s, 0 ≤ q y x) (hqs : ∀ y ∈ t, ∑ x ∈ s, q y x ≤ 1)
    (hdom : ∀ x ∈ s, ∀ y ∈ t, q y x = 0 → r x * P x y = 0) :
    ∑ x ∈ s, ∑ y ∈ t, r x * P x y * Real.logb 2 (q y x / r x)
      ≤ ∑ x ∈ s, r x * ∑ y ∈ t, P x y * Real.logb 2 (P x y / ∑ x' ∈ s, r x' * P x' y) := by
  have hle : ∀ x ∈ s, ∀ y ∈ t, r x * P x y ≤ ∑ x' ∈ s, r x' * P x' y := fun x hx y hy =>
    single_le_sum (f := fun x' => r x' * P x' y)
      (fun x' hx' => mul_nonneg (hr x' hx') (hP x' hx' y hy)) hx
  have hRnn : ∀ y ∈ t, 0 ≤ ∑ x' ∈ s, r x' * P x' y := fun y hy =>
    sum_nonneg (fun x hx => mul_nonneg (hr x hx) (hP x hx y hy))
  have key : ∀ y ∈ t, 0 ≤ ∑ x ∈ s, (r x * (P x y * Real.logb 2
      (P x y / ∑ x' ∈ s, r x' * P x' y)) - r x * P x y * Real.logb 2 (q y x / r x)) := by
    intro y hy
    have hg := Lemmas.InfoReal.gibbs s (fun x => r x * P x y)
      (fun x => (∑ x' ∈ s, r x' * P x' y) * q y x)
      (fun x hx => mul_nonneg (hr x hx) (hP x hx y hy))
      (fun x hx => mul_nonneg (hRnn y hy) (hq y hy x hx))
      (by
        rw [← mul_sum]
        calc (∑ x' ∈ s, r x' * P x' y) * ∑ x ∈ s, q y x
            ≤ (∑ x' ∈ s, r x' * P x' y) * 1 :=
              mul_le_mul_of_nonneg_left (hqs y hy) (hRnn y hy)
          _ = ∑ x ∈ s, r x * P x y := mul_one _)
      (fun x hx h0 => by
        rcases mul_eq_zero.mp h0 with h | h
        · have h1 := hle x hx y hy
          have h2 := mul_nonneg (hr x hx) (hP x hx y hy)
          rw [h] at h1
          exact le_antisymm h1 h2
        · exact hdom x hx y hy h)
    refine le_trans hg (le_of_eq ?_)
    apply sum_congr rfl
    intro x hx
    exact gap_term _ _ _ _ (hr x hx) (hP x hx y hy) (hle x hx y hy) (hdom x hx y hy)
  have hsum := sum_nonneg key
  rw [sum_comm] at hsum
  simp only [sum_sub_distrib, ← mul_sum] at hsum
  simp only [mul_sum] at hsum ⊢
  linarith

/-- The weight form of `J`: summing a row, `Σ_y r P_xy log₂ (q_yx / r) = r log₂ (w_x / r)` with
`w_x = 2 ^ Σ_y P_xy log₂ q_yx`, for a row of `P` summing to one and `q` non-zero where `P` is. -/
theorem row_weight (t : Finset κ) (r : ℝ) (P q : κ → ℝ) (hrow : ∑ y ∈ t, P y = 1)
    (hq : ∀ y ∈ t, P y ≠ 0 → q y ≠ 0) :
    ∑ y ∈ t, r * P y * Real.logb 2 (q y / r)
      = r * Real.logb 2 ((2 : ℝ) ^ (∑ y ∈ t, P y * Real.logb 2 (q y)) / r) := by
  by_cases h : r = 0
  · simp [h]
  have e : ∀ y ∈ t, r * P y * Real.logb 2 (q y / r)
      = r * (P y * Real.logb 2 (q y)) - r * Real.logb 2 r * P y := by
    intro y hy
    by_cases h2 : P y = 0
    · simp [h2]
    · rw [Real.logb_div (hq y hy h2) h]; ring
  rw [sum_congr rfl e, sum_sub_distrib, ← mul_sum, ← mul_sum, hrow,
    Real.logb_div (Real.rpow_pos_of_pos (by norm_num) _).ne' h,
    Real.logb_rpow (by norm_num) (by norm_num)]
  ring

theorem weight_term (r w W : ℝ) (hw : 0 < w) (hW : 0 < W) :
    r * Real.logb 2 (r / (w / W)) = r * Real.logb 2 W - r * Real.logb 2 (w / r) := by
  by_cases h : r = 0
  · simp [h]
  rw [Real.logb_div h (div_pos hw hW).ne', Real.logb_div hw.ne' hW.ne', Real.logb_div hw.ne' h]
  ring

/-- **Half-step (b)**, weight form: `Σ_x r_x log₂ (w_x / r_x) ≤ log₂ Σ_x w_x` for a law `r` and
positive weights `w`. -/
theorem weight_le (s : Finset ι) (r w : ι → ℝ) (hr : ∀ x ∈ s, 0 ≤ r x) (hrs : ∑ x ∈ s, r x = 1)
    (hw : ∀ x ∈ s, 0 < w x) :
    ∑ x ∈ s, r x * Real.logb 2 (w x / r x) ≤ Real.logb 2 (∑ x ∈ s, w x) := by
  have hne : s.Nonempty := by
    by_contra h
    rw [not_nonempty_iff_eq_empty] at h
    rw [h] at hrs; simp at hrs
  have hW : 0 < ∑ x ∈ s, w x := sum_pos hw hne
  have hg := Lemmas.InfoReal.gibbs s r (fun x => w x / ∑ x' ∈ s, w x') hr
    (fun x hx => (div_pos (hw x hx) hW).le)
    (by rw [← sum_div, div_self hW.ne', hrs])
    (fun x hx h0 => absurd h0 (div_pos (hw x hx) hW).ne')
  rw [sum_congr rfl (fun x hx => weight_term (r x) (w x) _ (hw x hx) hW), sum_sub_distrib,
    ← sum_mul, hrs, one_mul] at hg
  linarith

/-- … with equality at `r_x = w_x / Σ w`. -/
theorem weight_eq (s : Finset ι) (w : ι → ℝ) (hw : ∀ x ∈ s, 0 < w x) (hne : s.Nonempty) :
    ∑ x ∈ s, (w x / ∑ x' ∈ s, w x') * Real.logb 2 (w x / (w x / ∑ x' ∈ s, w x'))
      = Real.logb 2 (∑ x ∈ s, w x) := by
  have hW : 0 < ∑ x ∈ s, w x := sum_pos hw hne
  have e : ∀ x ∈ s, (w x / ∑ x' ∈ s, w x') * Real.logb 2 (w x / (w x / ∑ x' ∈ s, w x'))
      = (w x / ∑ x' ∈ s, w x') * Real.logb 2 (∑ x' ∈ s, w x') := by
    intro x hx
    rw [div_div_cancel₀ (hw x hx).ne']
  rw [sum_congr rfl e, ← sum_mul, ← sum_div, div_self hW.ne', one_mul]

end Core

/-! ### List-level consequences -/

section ListLevel

theorem out_pos (r : List ℝ) (P : List (List ℝ)) (n m : ℕ) (hr : PosLaw r n)
    (hP : IsChannel P n m) (x y : ℕ) (hx : x < n) (hxy : ent P x y ≠ 0) :
    0 < vec (outputLaw r P) y := by
  rw [vec_outputLaw r P n m hr.law.len hP.isMat]
  have hle : vec r x * ent P x y ≤ ∑ x' ∈ range n, vec r x' * ent P x' y :=
    single_le_sum (f := fun x' => vec r x' * ent P x' y)
      (fun x' _ => mul_nonneg (hr.law.vec_nonneg x') (hP.ent_nonneg x' y)) (mem_range.mpr hx)
  have : 0 < vec r x * ent P x y :=
    mul_pos (hr.pos x hx) (lt_of_le_of_ne (hP.ent_nonneg x y) (Ne.symm hxy))
  linarith

theorem out_nonneg (r : List ℝ) (P : List (List ℝ)) (n m : ℕ) (hr : IsLaw r n)
    (hP : IsChannel P n m) (y : ℕ) : 0 ≤ vec (outputLaw r P) y := by
  rw [vec_outputLaw r P n m hr.len hP.isMat]
  exact sum_nonneg (fun x _ => mul_nonneg (hr.vec_nonneg x) (hP.ent_nonneg x y))

theorem capNextQ_nonneg (r : List ℝ) (P : List (List ℝ)) (n m : ℕ) (hr : IsLaw r n)
    (hP : IsChannel P n m) (y x : ℕ) (hy : y < m) (hx : x < n) : 0 ≤ ent (capNextQ r P) y x := by
  rw [ent_capNextQ r P n m hr.len hP.isMat y x hy hx]
  exact div_nonneg (mul_nonneg (hr.vec_nonneg x) (hP.ent_nonneg x y)) (out_nonneg r P n m hr hP y)

theorem capNextQ_sum (r : List ℝ) (P : List (List ℝ)) (n m : ℕ) (hr : IsLaw r n)
    (hP : IsChannel P n m) (y : ℕ) (hy : y < m) :
    ∑ x ∈ range n, ent (capNextQ r P) y x
      = vec (outputLaw r P) y / vec (outputLaw r P) y := by
  rw [sum_congr rfl (fun x hx => ent_capNextQ r P n m hr.len hP.isMat y x hy (mem_range.mp hx)),
    ← sum_div, ← vec_outputLaw r P n m hr.len hP.isMat]

theorem capNextQ_sum_le (r : List ℝ) (P : List (List ℝ)) (n m : ℕ) (hr : IsLaw r n)
    (hP : IsChannel P n m) (y : ℕ) (hy : y < m) : ∑ x ∈ range n, ent (capNextQ r P) y x ≤ 1 := by
  rw [capNextQ_sum r P n m hr hP y hy]
  exact div_self_le_one _

theorem capNextQ_pos (r : List ℝ) (P : List (List ℝ)) (n m : ℕ) (hr : PosLaw r n)
    (hP : IsChannel P n m) (x y : ℕ) (hx : x < n) (hy : y < m) (hxy : ent P x y ≠ 0) :
    0 < ent (capNextQ r P) y x := by
  rw [ent_capNextQ r P n m hr.law.len hP.isMat y x hy hx]
  exact div_pos (mul_pos (hr.pos x hx) (lt_of_le_of_ne (hP.ent_nonneg x y) (Ne.symm hxy)))
    (out_pos r P n m hr hP x y hx hxy)

/-- **(2a) list form**: `J(r, q) ≤ I(r; P)`. -/
theorem capCC_le_channelMI (P : List (List ℝ)) (n m : ℕ) (hP : IsChannel P n m) (r : List ℝ)
    (hr : IsLaw r n) (q : List (List ℝ)) (hq : ∀ y < m, ∀ x < n, 0 ≤ ent q y x)
    (hqs : ∀ y < m, ∑ x ∈ range n, ent q y x ≤ 1)
    (hdom : ∀ x < n, ∀ y < m, ent q y x = 0 → vec r x * ent P x y = 0) :
    capCC (Real.logb 2) P q r ≤ channelMI (Real.logb 2) r P := by
  rw [capCC_eq P q r n m hP.isMat, channelMI_eq r P n m hr.len hP.isMat]
  simp only [vec_outputLaw r P n m hr.len hP.isMat]
  exact J_le_mi (range n) (range m) (vec r) (ent P) (fun y x => ent q y x)
    (fun x _ => hr.vec_nonneg x) (fun x _ y _ => hP.ent_nonneg x y)
    (fun y hy x hx => hq y (mem_range.mp hy) x (mem_range.mp hx))
    (fun y hy => hqs y (mem_range.mp hy))
    (fun x hx y hy => hdom x (mem_range.mp hx) y (mem_range.mp hy))

/-- **(2a) equality**: `J(r, next_q r) = I(r; P)` (shapes only). -/
theorem capCC_posterior (r : List ℝ) (P : List (List ℝ)) (n m : ℕ) (hr : r.length = n)
    (hP : IsMat P n m) :
    capCC (Real.logb 2) P (capNextQ r P) r = channelMI (Real.logb 2) r P := by
  rw [capCC_eq P _ r n m hP, channelMI_eq r P n m hr hP]
  apply sum_congr rfl
  intro x hx
  rw [mul_sum]
  apply sum_congr rfl
  intro y hy
  rw [ent_capNextQ r P n m hr hP y x (mem_range.mp hy) (mem_range.mp hx)]
  exact post_term _ _ _

/-- `J(r, q) = Σ_x r_x log₂ (w_x / r_x)` when `q` is non-zero where `P` is. -/
theorem capCC_eq_weight (P : List (List ℝ)) (n m : ℕ) (hP : IsChannel P n m)
    (q : List (List ℝ)) (hq : ∀ x < n, ∀ y < m, ent P x y ≠ 0 → ent q y x ≠ 0) (r : List ℝ) :
    capCC (Real.logb 2) P q r
      = ∑ x ∈ range n, vec r x * Real.logb 2 (capW P q m x / vec r x) := by
  rw [capCC_eq P q r n m hP.isMat]
  apply sum_congr rfl
  intro x hx
  exact row_weight (range m) (vec r x) (ent P x) (fun y => ent q y x)
    (hP.sum_ent (mem_range.mp hx)) (fun y hy => hq x (mem_range.mp hx) y (mem_range.mp hy))

/-- **(2b) list form**: `J(r, q) ≤ log₂ Σ_x w_x` for every law `r`. -/
theorem capCC_le_log (P : List (List ℝ)) (n m : ℕ) (hP : IsChannel P n m)
    (q : List (List ℝ)) (hq : ∀ x < n, ∀ y < m, ent P x y ≠ 0 → ent q y x ≠ 0) (r : List ℝ)
    (hr : IsLaw r n) :
    capCC (Real.logb 2) P q r ≤ Real.logb 2 (∑ x ∈ range n, capW P q m x) := by
  rw [capCC_eq_weight P n m hP q hq r]
  exact weight_le (range n) (vec r) (fun x => capW P q m x) (fun x _ => hr.vec_nonneg x)
    hr.sum_vec (fun x _ => capW_pos P q m x)

/-- **(2b) equality**: `J(next_r q, q) = log₂ Σ_x w_x`. -/
theorem capCC_capNextR (P : List (List ℝ)) (n m : ℕ) (hP : IsChannel P n m) (hn : 0 < n)
    (q : List (List ℝ)) (hq : ∀ x < n, ∀ y < m, ent P x y ≠ 0 → ent q y x ≠ 0) :
    capCC (Real.logb 2) P q (capNextR (Real.logb 2) (fun x => (2 : ℝ) ^ x) P q)
      = Real.logb 2 (∑ x ∈ range n, capW P q m x) := by
  rw [capCC_eq_weight P n m hP q hq,
    sum_congr rfl (fun x hx => by rw [vec_capNextR P q n m hP.isMat x (mem_range.mp hx)])]
  exact weight_eq (range n) (fun x => capW P q m x) (fun x _ => capW_pos P q m x)
    ⟨0, mem_range.mpr hn⟩

/-- `next_r` returns a law with strictly positive entries, whatever `q` is. -/
theorem capNextR_posLaw (P q : List (List ℝ)) (n m : ℕ) (hP : IsMat P n m) (hn : 0 < n) :
    PosLaw (capNextR (Real.logb 2) (fun x => (2 : ℝ) ^ x) P q) n := by
  have hW : 0 < ∑ x' ∈ range n, capW P q m x' :=
    sum_pos (fun x _ => capW_pos P q m x) ⟨0, mem_range.mpr hn⟩
  have hpos : ∀ x < n, 0 < vec (capNextR (Real.logb 2) (fun x => (2 : ℝ) ^ x) P q) x := by
    intro x hx
    rw [vec_capNextR P q n m hP x hx]
    exact div_pos (capW_pos P q m x) hW
  refine ⟨isLaw_of_vec _ n (capNextR_length P q n m hP) (fun x hx => (hpos x hx).le) ?_, hpos⟩
  rw [sum_congr rfl (fun x hx => vec_capNextR P q n m hP x (mem_range.mp hx)), ← sum_div,
    div_self hW.ne']

/-! ### One pass -/

theorem capStep_fst (P : List (List ℝ)) (r : List ℝ) :
    (capStep (Real.logb 2) (fun x => (2 : ℝ) ^ x) P r).1
      = capCC (Real.logb 2) P (capNextQ r P)
          (capNextR (Real.logb 2) (fun x => (2 : ℝ) ^ x) P (capNextQ r P)) := rfl

theorem capStep_snd (P : List (List ℝ)) (r : List ℝ) :
    (capStep (Real.logb 2) (fun x => (2 : ℝ) ^ x) P r).2
      = capNextR (Real.logb 2) (fun x => (2 : ℝ) ^ x) P (capNextQ r P) := rfl

theorem capStep_posLaw (P : List (List ℝ)) (n m : ℕ) (hP : IsMat P n m) (hn : 0 < n)
    (r : List ℝ) : PosLaw (capStep (Real.logb 2) (fun x => (2 : ℝ) ^ x) P r).2 n :=
  capNextR_posLaw P _ n m hP hn

/-- The sandwich `I(r;P) ≤ cc ≤ I(r';P)` for one pass from a positive law. -/
theorem capStep_sandwich (P : List (List ℝ)) (n m : ℕ) (hP : IsChannel P n m) (r : List ℝ)
    (hr : PosLaw r n) :
    channelMI (Real.logb 2) r P ≤ (capStep (Real.logb 2) (fun x => (2 : ℝ) ^ x) P r).1
    ∧ (capStep (Real.logb 2) (fun x => (2 : ℝ) ^ x) P r).1
        ≤ channelMI (Real.logb 2) (capStep (Real.logb 2) (fun x => (2 : ℝ) ^ x) P r).2 P := by
  have hn : 0 < n := hr.law.pos_len
  have hqne : ∀ x < n, ∀ y < m, ent P x y ≠ 0 → ent (capNextQ r P) y x ≠ 0 :=
    fun x hx y hy h => (capNextQ_pos r P n m hr hP x y hx hy h).ne'
  have hr' := capStep_posLaw P n m hP.isMat hn r
  rw [capStep_fst, capStep_snd] at *
  constructor
  · rw [← capCC_posterior r P n m hr.law.len hP.isMat,
      capCC_capNextR P n m hP hn _ hqne]
    exact capCC_le_log P n m hP _ hqne r hr.law
  · apply capCC_le_channelMI P n m hP _ hr'.law _
      (fun y hy x hx => capNextQ_nonneg r P n m hr.law hP y x hy hx)
      (fun y hy => capNextQ_sum_le r P n m hr.law hP y hy)
    intro x hx y hy h0
    by_cases hxy : ent P x y = 0
    · rw [hxy, mul_zero]
    · exact absurd h0 (hqne x hx y hy hxy)

/-! ### The loop -/

theorem capLoop_succ (P : List (List ℝ)) (close : ℝ → ℝ → Bool) (fuel : ℕ) (old cc : ℝ)
    (r : List ℝ) (it : ℕ) :
    capLoop (Real.logb 2) (fun x => (2 : ℝ) ^ x) P close (fuel + 1) old cc r it
      = if close cc old then (cc, r, it)
        else capLoop (Real.logb 2) (fun x => (2 : ℝ) ^ x) P close fuel cc
          (capStep (Real.logb 2) (fun x => (2 : ℝ) ^ x) P r).1
          (capStep (Real.logb 2) (fun x => (2 : ℝ) ^ x) P r).2 (it + 1) := rfl

/-- Any invariant of `(cc, r)` preserved by one pass holds for the result of the loop, and the
pass counter grows by at most the fuel. -/
theorem capLoop_spec (P : List (List ℝ)) (close : ℝ → ℝ → Bool) (Inv : ℝ → List ℝ → Prop)
    (hstep : ∀ cc r, Inv cc r → Inv (capStep (Real.logb 2) (fun x => (2 : ℝ) ^ x) P r).1
      (capStep (Real.logb 2) (fun x => (2 : ℝ) ^ x) P r).2) :
    ∀ (fuel : ℕ) (old cc : ℝ) (r : List ℝ) (it : ℕ), Inv cc r →
      Inv (capLoop (Real.logb 2) (fun x => (2 : ℝ) ^ x) P close fuel old cc r it).1
        (capLoop (Real.logb 2) (fun x => (2 : ℝ) ^ x) P close fuel old cc r it).2.1
      ∧ it ≤ (capLoop (Real.logb 2) (fun x => (2 : ℝ) ^ x) P close fuel old cc r it).2.2
      ∧ (capLoop (Real.logb 2) (fun x => (2 : ℝ) ^ x) P close fuel old cc r it).2.2
          ≤ it + fuel := by
  intro fuel
  induction fuel with
  | zero => intro old cc r it h; exact ⟨h, le_refl _, le_refl _⟩
  | succ fuel ih =>
    intro old cc r it h
    rw [capLoop_succ]
    by_cases hc : close cc old = true
    · rw [if_pos hc]; exact ⟨h, le_refl _, Nat.le_add_right it (fuel + 1)⟩
    · rw [if_neg hc]
      obtain ⟨h1, h2, h3⟩ := ih cc _ _ (it + 1) (hstep cc r h)
      exact ⟨h1, by omega, by omega⟩

theorem uniform_posLaw (n : ℕ) (hn : 0 < n) : PosLaw (uniformLaw n) n :=
  ⟨uniformLaw_isLaw n hn, fun x hx => by rw [vec_uniformLaw n x hx]; positivity⟩

theorem capRun_eq (P : List (List ℝ)) (close : ℝ → ℝ → Bool) (fuel : ℕ) :
    capRun (Real.logb 2) (fun x => (2 : ℝ) ^ x) (fun k => (k : ℝ)) P close fuel
      = capLoop (Real.logb 2) (fun x => (2 : ℝ) ^ x) P close fuel 0
          (capStep (Real.logb 2) (fun x => (2 : ℝ) ^ x) P (uniformLaw P.length)).1
          (capStep (Real.logb 2) (fun x => (2 : ℝ) ^ x) P (uniformLaw P.length)).2 1 := rfl

/-- The result of `capRun` is one `capStep` applied to some positive law, and the number of
passes is between `1` and `fuel + 1`. -/
theorem capRun_inv (P : List (List ℝ)) (n m : ℕ) (hP : IsMat P n m) (hn : 0 < n)
    (close : ℝ → ℝ → Bool) (fuel : ℕ) :
    (∃ rp, PosLaw rp n ∧ capStep (Real.logb 2) (fun x => (2 : ℝ) ^ x) P rp
      = ((capRun (Real.logb 2) (fun x => (2 : ℝ) ^ x) (fun k => (k : ℝ)) P close fuel).1,
         (capRun (Real.logb 2) (fun x => (2 : ℝ) ^ x) (fun k => (k : ℝ)) P close fuel).2.1))
    ∧ 1 ≤ (capRun (Real.logb 2) (fun x => (2 : ℝ) ^ x) (fun k => (k : ℝ)) P close fuel).2.2
    ∧ (capRun (Real.logb 2) (fun x => (2 : ℝ) ^ x) (fun k => (k : ℝ)) P close fuel).2.2
        ≤ fuel + 1 := by
  rw [capRun_eq, hP.len]
  have h := capLoop_spec P close
    (fun cc r => ∃ rp, PosLaw rp n ∧ capStep (Real.logb 2) (fun x => (2 : ℝ) ^ x) P rp = (cc, r))
    (by
      rintro cc r ⟨rp, hrp, he⟩
      have hr : PosLaw r n := by
        have := capStep_posLaw P n m hP hn rp
        rw [he] at this; exact this
      exact ⟨r, hr, rfl⟩)
    fuel 0 _ _ 1 ⟨uniformLaw n, uniform_posLaw n hn, rfl⟩
  obtain ⟨h1, h2, h3⟩ := h
  exact ⟨h1, h2, by rw [Nat.add_comm]; exact h3⟩

end ListLevel

/-! ### Closed form of one pass, the fixed point, and `baCapacityStep` -/

section Fixed

/-- `D(P_x ‖ rP)` as a range sum. -/
noncomputable def rowDiv (r : List ℝ) (P : List (List ℝ)) (m x : ℕ) : ℝ :=
  ∑ y ∈ range m, ent P x y * Real.logb 2 (ent P x y / vec (outputLaw r P) y)

/-- With the posterior of a positive law the weights are `w_x = r_x 2^{D(P_x‖rP)}`. -/
theorem capW_posterior (r : List ℝ) (P : List (List ℝ)) (n m : ℕ) (hr : PosLaw r n)
    (hP : IsChannel P n m) (x : ℕ) (hx : x < n) :
    capW P (capNextQ r P) m x = vec r x * (2 : ℝ) ^ (rowDiv r P m x) := by
  have hrx := hr.pos x hx
  have e : ∀ y ∈ range m, ent P x y * Real.logb 2 (ent (capNextQ r P) y x)
      = Real.logb 2 (vec r x) * ent P x y
        + ent P x y * Real.logb 2 (ent P x y / vec (outputLaw r P) y) := by
    intro y hy
    rw [ent_capNextQ r P n m hr.law.len hP.isMat y x (mem_range.mp hy) hx]
    by_cases hxy : ent P x y = 0
    · simp [hxy]
    · have hR := out_pos r P n m hr hP x y hx hxy
      rw [mul_div_assoc, Real.logb_mul hrx.ne' (div_ne_zero hxy hR.ne')]
      ring
  unfold capW
  rw [sum_congr rfl e, sum_add_distrib, ← mul_sum, hP.sum_ent hx, mul_one,
    Real.rpow_add (by norm_num), Real.rpow_logb (by norm_num) (by norm_num) hrx]
  rfl

/-- Entries of the new law in the textbook form `r'_x = r_x 2^{D_x} / Σ r 2^{D}`. -/
theorem vec_capStep_snd (r : List ℝ) (P : List (List ℝ)) (n m : ℕ) (hr : PosLaw r n)
    (hP : IsChannel P n m) (x : ℕ) (hx : x < n) :
    vec (capStep (Real.logb 2) (fun x => (2 : ℝ) ^ x) P r).2 x
      = vec r x * (2 : ℝ) ^ (rowDiv r P m x)
        / ∑ x' ∈ range n, vec r x' * (2 : ℝ) ^ (rowDiv r P m x') := by
  rw [capStep_snd, vec_capNextR P _ n m hP.isMat x hx, capW_posterior r P n m hr hP x hx,
    sum_congr rfl (fun x' hx' => capW_posterior r P n m hr hP x' (mem_range.mp hx'))]

/-- The reported value in closed form: `cc = log₂ Σ_x r_x 2^{D(P_x‖rP)}`. -/
theorem capStep_fst_closed (r : List ℝ) (P : List (List ℝ)) (n m : ℕ) (hr : PosLaw r n)
    (hP : IsChannel P n m) :
    (capStep (Real.logb 2) (fun x => (2 : ℝ) ^ x) P r).1
      = Real.logb 2 (∑ x ∈ range n, vec r x * (2 : ℝ) ^ (rowDiv r P m x)) := by
  rw [capStep_fst, capCC_capNextR P n m hP hr.law.pos_len _
    (fun x hx y hy h => (capNextQ_pos r P n m hr hP x y hx hy h).ne'),
    sum_congr rfl (fun x' hx' => capW_posterior r P n m hr hP x' (mem_range.mp hx'))]

/-- At a fixed point of the pass every row divergence equals `log₂ Σ_x r_x 2^{D_x}`. -/
theorem fixed_rows (r : List ℝ) (P : List (List ℝ)) (n m : ℕ) (hr : PosLaw r n)
    (hP : IsChannel P n m)
    (hfix : (capStep (Real.logb 2) (fun x => (2 : ℝ) ^ x) P r).2 = r) (x : ℕ) (hx : x < n) :
    rowDiv r P m x = Real.logb 2 (∑ x' ∈ range n, vec r x' * (2 : ℝ) ^ (rowDiv r P m x')) := by
  have h := vec_capStep_snd r P n m hr hP x hx
  rw [hfix] at h
  have hrx := hr.pos x hx
  have hZ : 0 < ∑ x' ∈ range n, vec r x' * (2 : ℝ) ^ (rowDiv r P m x') :=
    sum_pos (fun x' hx' => mul_pos (hr.pos x' (mem_range.mp hx'))
      (Real.rpow_pos_of_pos (by norm_num) _)) ⟨0, mem_range.mpr hr.law.pos_len⟩
  have h2 : (2 : ℝ) ^ (rowDiv r P m x)
      = ∑ x' ∈ range n, vec r x' * (2 : ℝ) ^ (rowDiv r P m x') := by
    rw [eq_div_iff hZ.ne'] at h
    exact (mul_left_cancel₀ hrx.ne' h).symm
  rw [← h2, Real.logb_rpow (by norm_num) (by norm_num)]

theorem zipWith_eq_range_map {β γ δ : Type} (f : β → γ → δ) (d1 : β) (d2 : γ) (l1 : List β)
    (l2 : List γ) (n : ℕ) (h1 : l1.length = n) (h2 : l2.length = n) :
    List.zipWith f l1 l2 = (List.range n).map (fun i => f (l1.getD i d1) (l2.getD i d2)) := by
  apply List.ext_getElem
  · simp [h1, h2]
  · intro i hi1 hi2
    have hi : i < n := by simpa [h1, h2] using hi1
    simp [List.getD_eq_getElem?_getD, h1, h2, hi]

/-- `next_r ∘ next_q` is the model's one-step `baCapacityStep` (shapes only). -/
theorem capStep_snd_eq_baCapacityStep (r : List ℝ) (P : List (List ℝ)) (n m : ℕ)
    (hr : r.length = n) (hP : IsMat P n m) (hn : 0 < n) :
    (capStep (Real.logb 2) (fun x => (2 : ℝ) ^ x) P r).2
      = baCapacityStep (Real.logb 2) (fun x => (2 : ℝ) ^ x) r P := by
  have hw : List.zipWith (fun rx px => (2 : ℝ) ^ (lsum (List.zipWith
        (fun pxy qy => if pxy == 0 then 0 else pxy * Real.logb 2 (rx * pxy / qy)) px
        (outputLaw r P)))) r P = (List.range n).map (capW P (capNextQ r P) m) := by
    rw [zipWith_eq_range_map _ 0 [] r P n hr hP.len]
    apply List.map_congr_left
    intro x hx
    rw [List.mem_range] at hx
    rw [lsum_eq_sum, sum_zipWith_range _ 0 0 _ _ m (hP.row_len hx)
      (outputLaw_length r P n m hP hn)]
    unfold capW
    congr 1
    apply sum_congr rfl
    intro y hy
    rw [guard, ent_capNextQ r P n m hr hP y x (mem_range.mp hy) hx]
    rfl
  have e : baCapacityStep (Real.logb 2) (fun x => (2 : ℝ) ^ x) r P
      = (List.zipWith (fun rx px => (2 : ℝ) ^ (lsum (List.zipWith
        (fun pxy qy => if pxy == 0 then 0 else pxy * Real.logb 2 (rx * pxy / qy)) px
        (outputLaw r P)))) r P).map (· / lsum (List.zipWith (fun rx px => (2 : ℝ) ^ (lsum
        (List.zipWith (fun pxy qy => if pxy == 0 then 0 else pxy * Real.logb 2 (rx * pxy / qy))
        px (outputLaw r P)))) r P)) := rfl
  rw [e, hw, capStep_snd, capNextR_eq P _ n m hP, lsum_eq_sum, sum_range_map, List.map_map]
  rfl

end Fixed

/-! ### Shapes of `next_q`; fixed points from equal row divergences -/

section More

theorem capNextQ_length (r : List ℝ) (P : List (List ℝ)) (n m : ℕ) (hP : IsMat P n m)
    (hn : 0 < n) : (capNextQ r P).length = m := by
  unfold capNextQ
  simp [outputLaw_length r P n m hP hn]

theorem capNextQ_row_length (r : List ℝ) (P : List (List ℝ)) (n m : ℕ) (hr : r.length = n)
    (hP : IsMat P n m) (hn : 0 < n) (y : ℕ) (hy : y < m) :
    ((capNextQ r P).getD y []).length = n := by
  have hlen : (outputLaw r P).length = m := outputLaw_length r P n m hP hn
  unfold capNextQ
  simp only [hlen]
  rw [getD_range_map m _ [] y hy]
  simp [hr, hP.len]

theorem rowDiv_eq_klRow (r : List ℝ) (P : List (List ℝ)) (n m : ℕ) (hP : IsMat P n m)
    (hn : 0 < n) (x : ℕ) (hx : x < n) :
    rowDiv r P m x = klRow (Real.logb 2) (P.getD x []) (outputLaw r P) := by
  rw [klRow_eq _ _ m (hP.row_len hx) (outputLaw_length r P n m hP hn)]
  rfl

theorem list_ext_vec (l1 l2 : List ℝ) (n : ℕ) (h1 : l1.length = n) (h2 : l2.length = n)
    (h : ∀ x < n, vec l1 x = vec l2 x) : l1 = l2 := by
  apply List.ext_getElem (by rw [h1, h2])
  intro i hi1 hi2
  have := h i (by omega)
  simpa [vec, List.getD_eq_getElem?_getD, List.getElem?_eq_getElem hi1,
    List.getElem?_eq_getElem hi2] using this

/-- Converse of `fixed_rows`: a positive law all of whose row divergences are equal is returned
unchanged by one pass, and the reported value is that common divergence. -/
theorem fixed_of_rows (r : List ℝ) (P : List (List ℝ)) (n m : ℕ) (hr : PosLaw r n)
    (hP : IsChannel P n m) (D : ℝ) (hD : ∀ x < n, rowDiv r P m x = D) :
    (capStep (Real.logb 2) (fun x => (2 : ℝ) ^ x) P r).2 = r
    ∧ (capStep (Real.logb 2) (fun x => (2 : ℝ) ^ x) P r).1 = D := by
  have h2 : (0 : ℝ) < (2 : ℝ) ^ D := Real.rpow_pos_of_pos (by norm_num) _
  have hZ : ∑ x' ∈ range n, vec r x' * (2 : ℝ) ^ (rowDiv r P m x') = (2 : ℝ) ^ D := by
    rw [sum_congr rfl (fun x' hx' => by rw [hD x' (mem_range.mp hx')]), ← sum_mul,
      hr.law.sum_vec, one_mul]
  constructor
  · apply list_ext_vec _ _ n (capStep_posLaw P n m hP.isMat hr.law.pos_len r).law.len hr.law.len
    intro x hx
    rw [vec_capStep_snd r P n m hr hP x hx, hZ, hD x hx, mul_div_assoc, div_self h2.ne', mul_one]
  · rw [capStep_fst_closed r P n m hr hP, hZ, Real.logb_rpow (by norm_num) (by norm_num)]

end More

end Dit.Lemmas.CapLoop
