/-
Helper lemmas for the capacity iteration `Core/CapLoop.lean`
(`dit.algorithms.channelcapacity.channel_capacity`) over `ℝ` with `log2 := Real.logb 2`,
`exp2 := fun x => 2 ^ x`, `ofNat := Nat.cast`.

* list ↔ finite-sum bridge for `capNextQ`, `capNextR`, `capCC`;
* the finitary core of Arimoto's two half-step optimalities for the functional
  `J(r, q) = Σ_{x,y} r_x P(y|x) log₂ (q(x|y) / r_x)`;
* list-level consequences: the posterior, the new input law, the sandwich
  `I(r;P) ≤ cc ≤ I(r';P)`, the loop invariant, the fixed point.
Property theorems are in Props/C13Cap.lean.
-/
import DitModel.Core.CapLoop
import DitModel.Lemmas.Channel

set_option linter.unusedSectionVars false

namespace Dit.Lemmas.CapLoop
open Dit Dit.Lemmas.Table Dit.Lemmas.Channel Finset

/-! ### Positive laws -/

/-- `r` is a probability vector of length `n` all of whose entries are strictly positive
(the uniform start of the iteration is one, and every pass preserves it). -/
structure PosLaw (r : List ℝ) (n : ℕ) : Prop where
  law : IsLaw r n
  pos : ∀ x < n, 0 < vec r x

/-! ### List access -/

theorem getD_range_map {β : Type} (k : ℕ) (g : ℕ → β) (d : β) (y : ℕ) (hy : y < k) :
    ((List.range k).map g).getD y d = g y := by
  simp [List.getD_eq_getElem?_getD, hy]

theorem vec_zipWith {β γ : Type} (f : β → γ → ℝ) (d1 : β) (d2 : γ) (l1 : List β) (l2 : List γ)
    (x : ℕ) (h1 : x < l1.length) (h2 : x < l2.length) :
    vec (List.zipWith f l1 l2) x = f (l1.getD x d1) (l2.getD x d2) := by
  simp [vec, List.getD_eq_getElem?_getD, h1, h2]

/-! ### Unfolding the Core definitions into range sums -/

/-- The (unnormalised) weight of input letter `x` in `next_r`:
`w_x = 2 ^ Σ_y P(y|x) log₂ q(x|y) = Π_y q(x|y)^{P(y|x)}`. -/
noncomputable def capW (P q : List (List ℝ)) (m x : ℕ) : ℝ :=
  (2 : ℝ) ^ (∑ y ∈ range m, ent P x y * Real.logb 2 (ent q y x))

theorem capW_pos (P q : List (List ℝ)) (m x : ℕ) : 0 < capW P q m x :=
  Real.rpow_pos_of_pos (by norm_num) _

theorem capNextR_eq (P q : List (List ℝ)) (n m : ℕ) (hP : IsMat P n m) :
    capNextR (Real.logb 2) (fun x => (2 : ℝ) ^ x) P q
      = (List.range n).map (fun x => capW P q m x / ∑ x' ∈ range n, capW P q m x') := by
  have hw : (List.range P.length).map (fun x => (2 : ℝ) ^ (lsum ((List.range
        (P.getD x []).length).map (fun y => if (P.getD x []).getD y 0 == 0 then 0
          else (P.getD x []).getD y 0 * Real.logb 2 ((q.getD y []).getD x 0)))))
      = (List.range n).map (capW P q m) := by
    rw [hP.len]
    apply List.map_congr_left
    intro x hx
    rw [List.mem_range] at hx
    rw [lsum_eq_sum, sum_range_map, hP.row_len hx]
    unfold capW
    congr 1
    apply sum_congr rfl
    intro y _
    exact guard _ _ _
  have e : capNextR (Real.logb 2) (fun x => (2 : ℝ) ^ x) P q
      = ((List.range P.length).map (fun x => (2 : ℝ) ^ (lsum ((List.range
        (P.getD x []).length).map (fun y => if (P.getD x []).getD y 0 == 0 then 0
          else (P.getD x []).getD y 0 * Real.logb 2 ((q.getD y []).getD x 0)))))).map
        (· / lsum ((List.range P.length).map (fun x => (2 : ℝ) ^ (lsum ((List.range
        (P.getD x []).length).map (fun y => if (P.getD x []).getD y 0 == 0 then 0
          else (P.getD x []).getD y 0 * Real.logb 2 ((q.getD y []).getD x 0))))))) := rfl
  rw [e, hw, lsum_eq_sum, sum_range_map, List.map_map]
  rfl

theorem capNextR_length (P q : List (List ℝ)) (n m : ℕ) (hP : IsMat P n m) :
    (capNextR (Real.logb 2) (fun x => (2 : ℝ) ^ x) P q).length = n := by
  rw [capNextR_eq P q n m hP]; simp

theorem vec_capNextR (P q : List (List ℝ)) (n m : ℕ) (hP : IsMat P n m) (x : ℕ) (hx : x < n) :
    vec (capNextR (Real.logb 2) (fun x => (2 : ℝ) ^ x) P q) x
      = capW P q m x / ∑ x' ∈ range n, capW P q m x' := by
  rw [capNextR_eq P q n m hP, vec_range_map n _ x hx]

/-- `calc_cc` as a double sum (the `nansum` guard agrees with `0 · log₂ _ = 0`). -/
theorem capCC_eq (P q : List (List ℝ)) (r : List ℝ) (n m : ℕ) (hP : IsMat P n m) :
    capCC (Real.logb 2) P q r = ∑ x ∈ range n, ∑ y ∈ range m,
      vec r x * ent P x y * Real.logb 2 (ent q y x / vec r x) := by
  unfold capCC
  simp only [lsum_eq_sum, sum_range_map]
  rw [hP.len]
  apply sum_congr rfl
  intro x hx
  rw [hP.row_len (mem_range.mp hx)]
  apply sum_congr rfl
  intro y _
  exact guard _ _ _

/-- Entries of `next_q`: `q(x|y) = r_x P(y|x) / (rP)_y`. -/
theorem ent_capNextQ (r : List ℝ) (P : List (List ℝ)) (n m : ℕ) (hr : r.length = n)
    (hP : IsMat P n m) (y x : ℕ) (hy : y < m) (hx : x < n) :
    ent (capNextQ r P) y x = vec r x * ent P x y / vec (outputLaw r P) y := by
  have hlen : (outputLaw r P).length = m := outputLaw_length r P n m hP (by omega)
  unfold capNextQ ent
  simp only [hlen]
  rw [getD_range_map m _ [] y hy,
    vec_zipWith _ 0 [] r P x (by omega) (by rw [hP.len]; exact hx)]
  rfl

/-! ### The finitary core: Arimoto's functional `J(r, q) = Σ_{x,y} r_x P_xy log₂ (q_yx / r_x)` -/

section Core
variable {ι κ : Type}

/-- `J(r, q_r)` term: with the posterior `q_yx = r_x P_xy / R_y` the summand is the mutual
information summand. -/
theorem post_term (r P R : ℝ) :
    r * P * Real.logb 2 (r * P / R / r) = r * (P * Real.logb 2 (P / R)) := by
  by_cases h : r = 0
  · simp [h]
  · rw [mul_div_assoc, mul_div_cancel_left₀ _ h, mul_assoc]

theorem gap_term (r P R q : ℝ) (hr : 0 ≤ r) (hP : 0 ≤ P) (hR : r * P ≤ R)
    (hq : q = 0 → r * P = 0) :
    r * P * Real.logb 2 (r * P / (R * q))
      = r * (P * Real.logb 2 (P / R)) - r * P * Real.logb 2 (q / r) := by
  by_cases h1 : r = 0
  · simp [h1]
  by_cases h2 : P = 0
  · simp [h2]
  have hrpos : 0 < r := lt_of_le_of_ne hr (Ne.symm h1)
  have hPpos : 0 < P := lt_of_le_of_ne hP (Ne.symm h2)
  have hRpos : 0 < R := lt_of_lt_of_le (mul_pos hrpos hPpos) hR
  have hqne : q ≠ 0 := fun h => (mul_pos hrpos hPpos).ne' (hq h)
  rw [Real.logb_div (mul_ne_zero h1 h2) (mul_ne_zero hRpos.ne' hqne), Real.logb_mul h1 h2,
    Real.logb_mul hRpos.ne' hqne, Real.logb_div h2 hRpos.ne', Real.logb_div hqne h1]
  ring

/-- **Half-step (a)**: for fixed `r`, every family `q` of sub-probability vectors over `x` that
is non-zero where `r_x P_xy` is has `J(r, q) ≤ I(r; P)`. -/
theorem J_le_mi (s : Finset ι) (t : Finset κ) (r : ι → ℝ) (P : ι → κ → ℝ) (q : κ → ι → ℝ)
    (hr : ∀ x ∈ s, 0 ≤ r x) (hP : ∀ x ∈ s, ∀ y ∈ t, 0 ≤ P x y)
    (hq : ∀ y ∈ t, ∀ x ∈ s, 0 ≤ q y x) (hqs : ∀ y ∈ t, ∑ x ∈ s, q y x ≤ 1)
    (hdom : ∀ x ∈ s, ∀ y ∈ t, q y x = 0 → r x * P x y = 0) :
    ∑ x ∈ s, ∑ y ∈ t, r x * P x y * Real.logb 2 (q y x / r x)
      ≤ ∑ x ∈ s, r x * ∑ y ∈ t, P x y * Real.logb 2 (P x y / ∑ x' ∈ s, r x' * P x' y) := by
  have hle : ∀ x ∈ s, ∀ y ∈ t, r x * P x y ≤ ∑ x' ∈ s, r x' * P x' y := fun x hx y hy =>
    single_le_sum (f := fun x' => r x' * P x' y)
      (fun x' hx' => mul_nonneg (hr x' hx') (hP x' hx' y hy)) hx
  have hRnn : ∀ y ∈ t, 0 ≤ ∑ x' ∈ s, r x' * P x' y := fun y hy =>
    sum_nonneg (fun x hx => mul_nonneg (hr x hx) (hP x hx y hy))
  have key : ∀ y ∈ t, 0 ≤ ∑ x ∈ s, (r x * (P x y * Real.logb 2
      (P x y / ∑ x' ∈ s, r x' * P x' y)) - r x * P x y * Real.logb 2 (q y x / r x)) := by
    intro y hy
    have hg := Lemmas.InfoReal.gibbs s (fun x => r x * P x y)
      (fun x => (∑ x' ∈ s, r x' * P x' y) * q y x)
      (fun x hx => mul_nonneg (hr x hx) (hP x hx y hy))
      (fun x hx => mul_nonneg (hRnn y hy) (hq y hy x hx))
      (by
        rw [← mul_sum]
        calc (∑ x' ∈ s, r x' * P x' y) * ∑ x ∈ s, q y x
            ≤ (∑ x' ∈ s, r x' * P x' y) * 1 :=
              mul_le_mul_of_nonneg_left (hqs y hy) (hRnn y hy)
          _ = ∑ x ∈ s, r x * P x y := mul_one _)
      (fun x hx h0 => by
        rcases mul_eq_zero.mp h0 with h | h
        · have h1 := hle x hx y hy
          have h2 := mul_nonneg (hr x hx) (hP x hx y hy)
          rw [h] at h1
          exact le_antisymm h1 h2
        · exact hdom x hx y hy h)
    refine le_trans hg (le_of_eq ?_)
    apply sum_congr rfl
    intro x hx
    exact gap_term _ _ _ _ (hr x hx) (hP x hx y hy) (hle x hx y hy) (hdom x hx y hy)
  have hsum := sum_nonneg key
  rw [sum_comm] at hsum
  simp only [sum_sub_distrib, ← mul_sum] at hsum
  simp only [mul_sum] at hsum ⊢
  linarith

/-- The weight form of `J`: summing a row, `Σ_y r P_xy log₂ (q_yx / r) = r log₂ (w_x / r)` with
`w_x = 2 ^ Σ_y P_xy log₂ q_yx`, for a row of `P` summing to one and `q` non-zero where `P` is. -/
theorem row_weight (t : Finset κ) (r : ℝ) (P q : κ → ℝ) (hrow : ∑ y ∈ t, P y = 1)
    (hq : ∀ y ∈ t, P y ≠ 0 → q y ≠ 0) :
    ∑ y ∈ t, r * P y * Real.logb 2 (q y / r)
      = r * Real.logb 2 ((2 : ℝ) ^ (∑ y ∈ t, P y * Real.logb 2 (q y)) / r) := by
  by_cases h : r = 0
  · simp [h]
  have e : ∀ y ∈ t, r * P y * Real.logb 2 (q y / r)
      = r * (P y * Real.logb 2 (q y)) - r * Real.logb 2 r * P y := by
    intro y hy
    by_cases h2 : P y = 0
    · simp [h2]
    · rw [Real.logb_div (hq y hy h2) h]; ring
  rw [sum_congr rfl e, sum_sub_distrib, ← mul_sum, ← mul_sum, hrow,
    Real.logb_div (Real.rpow_pos_of_pos (by norm_num) _).ne' h,
    Real.logb_rpow (by norm_num) (by norm_num)]
  ring

theorem weight_term (r w W : ℝ) (hw : 0 < w) (hW : 0 < W) :
    r * Real.logb 2 (r / (w / W)) = r * Real.logb 2 W - r * Real.logb 2 (w / r) := by
  by_cases h : r = 0
  · simp [h]
  rw [Real.logb_div h (div_pos hw hW).ne', Real.logb_div hw.ne' hW.ne', Real.logb_div hw.ne' h]
  ring

/-- **Half-step (b)**, weight form: `Σ_x r_x log₂ (w_x / r_x) ≤ log₂ Σ_x w_x` for a law `r` and
positive weights `w`. -/
theorem weight_le (s : Finset ι) (r w : ι → ℝ) (hr : ∀ x ∈ s, 0 ≤ r x) (hrs : ∑ x ∈ s, r x = 1)
    (hw : ∀ x ∈ s, 0 < w x) :
    ∑ x ∈ s, r x * Real.logb 2 (w x / r x) ≤ Real.logb 2 (∑ x ∈ s, w x) := by
  have hne : s.Nonempty := by
    by_contra h
    rw [not_nonempty_iff_eq_empty] at h
    rw [h] at hrs; simp at hrs
  have hW : 0 < ∑ x ∈ s, w x := sum_pos hw hne
  have hg := Lemmas.InfoReal.gibbs s r (fun x => w x / ∑ x' ∈ s, w x') hr
    (fun x hx => (div_pos (hw x hx) hW).le)
    (by rw [← sum_div, div_self hW.ne', hrs])
    (fun x hx h0 => absurd h0 (div_pos (hw x hx) hW).ne')
  rw [sum_congr rfl (fun x hx => weight_term (r x) (w x) _ (hw x hx) hW), sum_sub_distrib,
    ← sum_mul, hrs, one_mul] at hg
  linarith

/-- … with equality at `r_x = w_x / Σ w`. -/
theorem weight_eq (s : Finset ι) (w : ι → ℝ) (hw : ∀ x ∈ s, 0 < w x) (hne : s.Nonempty) :
    ∑ x ∈ s, (w x / ∑ x' ∈ s, w x') * Real.logb 2 (w x / (w x / ∑ x' ∈ s, w x'))
      = Real.logb 2 (∑ x ∈ s, w x) := by
  have hW : 0 < ∑ x ∈ s, w x := sum_pos hw hne
  have e : ∀ x ∈ s, (w x / ∑ x' ∈ s, w x') * Real.logb 2 (w x / (w x / ∑ x' ∈ s, w x'))
      = (w x / ∑ x' ∈ s, w x') * Real.logb 2 (∑ x' ∈ s, w x') := by
    intro x hx
    rw [div_div_cancel₀ (hw x hx).ne']
  rw [sum_congr rfl e, ← sum_mul, ← sum_div, div_self hW.ne', one_mul]

end Core

end Dit.Lemmas.CapLoop
