/-
Helper lemmas for C14 (maximum-entropy distributions with prescribed marginals,
`Core/Maxent.lean`) over `ℝ` with `log := Real.logb 2`.

* `margAt` as an event weight; tables on a duplicate-free sample space as graphs of functions;
* the algebra of one IPF step (`ipfStep`): keys, non-negativity, fitted marginal, total mass,
  product form, Kullback–Leibler monotonicity;
* the disintegration lemma `Σ_o f(o) h(o_g) = Σ_x P_f(g = x) h(x)`;
* the Pythagorean identity `H(q) − H(p) = D(p‖q)` for a log-linear `q` and a `p` with the same
  marginals;
* sums over Cartesian products (product of one-variable marginals, `prodMarg`);
* `Feasible` tables, marginals of sub-groups, a group covering all variables, the uniform table;
* fixed points and invariants of the IPF iteration; the optimality certificate
  `entropy_le_of_loglinear`; a concrete 2×2 instance for the non-vacuity examples.
Property theorems are in Props/C14.lean.
-/
import DitModel.Core.Maxent
import DitModel.Core.Diverge
import DitModel.Lemmas.Table
import DitModel.Lemmas.InfoReal
import DitModel.Lemmas.Diverge
import Mathlib.Analysis.SpecialFunctions.Log.Base
import Mathlib.Algebra.BigOperators.Group.List.Basic
import Mathlib.Tactic.Linarith
import Mathlib.Tactic.Ring
import Mathlib.Tactic.FieldSimp
import Mathlib.Tactic.Positivity
import Mathlib.Tactic.NormNum

set_option linter.unusedSectionVars false

namespace Dit.Lemmas.Maxent
open Dit Dit.Lemmas.Table

/-! ### Marginals as event weights -/

section Marg
variable {σ : Type} [DecidableEq σ]

/-- The `g`-marginal at `x` is the weight of the event `{o | project g o = x}`. -/
theorem margAt_eq_wtBy (t : Tab (List σ) ℝ) (g : List Nat) (x : List σ) :
    margAt t g x = wtBy (fun o => project g o = x) t :=
  lookupD_pushforward (project g) t x

theorem wtBy_nonneg {κ : Type} (p : κ → Prop) [DecidablePred p] (t : Tab κ ℝ)
    (h : ∀ r ∈ t, 0 ≤ r.2) : 0 ≤ wtBy p t := by
  unfold wtBy
  apply Dit.Lemmas.Diverge.sum_map_nonneg
  intro r hr
  by_cases hp : p r.1
  · simpa [hp] using h r hr
  · simp [hp]

theorem margAt_nonneg (t : Tab (List σ) ℝ) (h : ∀ r ∈ t, 0 ≤ r.2) (g : List Nat) (x : List σ) :
    0 ≤ margAt t g x := by
  rw [margAt_eq_wtBy]; exact wtBy_nonneg _ t h

/-- A marginal vanishes at every `x` that is not the projection of a stored outcome. -/
theorem margAt_eq_zero_of_not_image (t : Tab (List σ) ℝ) (g : List Nat) (x : List σ)
    (h : ∀ o ∈ keys t, project g o ≠ x) : margAt t g x = 0 := by
  rw [margAt_eq_wtBy]; exact wtBy_eq_zero _ t h

/-- A row of a non-negative table is at most the marginal at its projection. -/
theorem le_margAt (t : Tab (List σ) ℝ) (h : ∀ r ∈ t, 0 ≤ r.2) (g : List Nat) (r : List σ × ℝ)
    (hr : r ∈ t) : r.2 ≤ margAt t g (project g r.1) := by
  rw [margAt_eq_wtBy]
  unfold wtBy
  have := Dit.Lemmas.Diverge.single_le_sum_map t
    (fun r' => if project g r'.1 = project g r.1 then r'.2 else 0)
    (by
      intro r' hr'
      by_cases hp : project g r'.1 = project g r.1
      · simpa [hp] using h r' hr'
      · simp [hp]) r hr
  simpa using this

/-- Event weight of a table whose values are computed row by row. -/
theorem wtBy_map {κ : Type} (p : κ → Prop) [DecidablePred p] (q : Tab κ ℝ) (F : κ × ℝ → ℝ) :
    wtBy p (q.map (fun r => (r.1, F r))) = (q.map (fun r => if p r.1 then F r else 0)).sum := by
  simp [wtBy, Function.comp_def]

/-- Total mass as a sum of marginal values over any duplicate-free list containing the
projections of all stored outcomes. -/
theorem sum_margAt (t : Tab (List σ) ℝ) (g : List Nat) {l : List (List σ)} (hl : l.Nodup)
    (h : ∀ o ∈ keys t, project g o ∈ l) : (l.map (fun x => margAt t g x)).sum = mass t := by
  have := sum_map_wtBy_fibre hl (project g) (fun _ => True) t h
  simp only [if_true, wtBy_true] at this
  rw [← this]
  congr 1
  exact List.map_congr_left (fun x _ => margAt_eq_wtBy t g x)

end Marg

section Step
variable {σ : Type} [DecidableEq σ]

/-- Over `ℝ` the zero guard of `ipfStep` is redundant (`x / 0 = 0`). -/
theorem ipfStep_eq (t q : Tab (List σ) ℝ) (g : List Nat) :
    ipfStep t q g = q.map (fun r =>
      (r.1, r.2 * (margAt t g (project g r.1) / margAt q g (project g r.1)))) := by
  unfold ipfStep
  apply List.map_congr_left
  intro r _
  by_cases h : margAt q g (project g r.1) = 0
  · simp [h]
  · simp [h, mul_div_assoc]

theorem keys_ipfStep (t q : Tab (List σ) ℝ) (g : List Nat) : keys (ipfStep t q g) = keys q := by
  simp [ipfStep, keys, Function.comp_def]

theorem ipfStep_nonneg (t q : Tab (List σ) ℝ) (g : List Nat) (ht : ∀ r ∈ t, 0 ≤ r.2)
    (hq : ∀ r ∈ q, 0 ≤ r.2) : ∀ r ∈ ipfStep t q g, 0 ≤ r.2 := by
  rw [ipfStep_eq]
  intro r hr
  obtain ⟨r', hr', rfl⟩ := List.mem_map.mp hr
  exact mul_nonneg (hq r' hr') (div_nonneg (margAt_nonneg t ht g _) (margAt_nonneg q hq g _))

theorem margAt_ipfStep_eq (t q : Tab (List σ) ℝ) (g : List Nat) (x : List σ) :
    margAt (ipfStep t q g) g x = margAt q g x * (margAt t g x / margAt q g x) := by
  calc margAt (ipfStep t q g) g x
      = (q.map (fun r => (if project g r.1 = x then r.2 else 0)
            * (margAt t g x / margAt q g x))).sum := by
        rw [margAt_eq_wtBy, ipfStep_eq, wtBy_map]
        congr 1
        apply List.map_congr_left
        intro r _
        by_cases h : project g r.1 = x
        · subst h; simp
        · simp [h]
    _ = (q.map (fun r => if project g r.1 = x then r.2 else 0)).sum
          * (margAt t g x / margAt q g x) := Dit.Lemmas.Diverge.sum_map_mul_right _ _ _
    _ = margAt q g x * (margAt t g x / margAt q g x) := by
        rw [margAt_eq_wtBy q g x]; rfl

theorem margAt_ipfStep (t q : Tab (List σ) ℝ) (g : List Nat)
    (h : ∀ x, margAt q g x = 0 → margAt t g x = 0) (x : List σ) :
    margAt (ipfStep t q g) g x = margAt t g x := by
  rw [margAt_ipfStep_eq]
  by_cases h0 : margAt q g x = 0
  · rw [h0, h x h0]; simp
  · field_simp

theorem mass_ipfStep (t q : Tab (List σ) ℝ) (g : List Nat)
    (h : ∀ x, margAt q g x = 0 → margAt t g x = 0) : mass (ipfStep t q g) = mass t := by
  have hl := nodup_dedup ((keys t ++ keys q).map (project g))
  rw [← sum_margAt (ipfStep t q g) g hl, ← sum_margAt t g hl]
  · congr 1
    exact List.map_congr_left (fun x _ => margAt_ipfStep t q g h x)
  · intro o ho; rw [mem_dedup]; exact List.mem_map.mpr ⟨o, List.mem_append_left _ ho, rfl⟩
  · intro o ho; rw [mem_dedup, keys_ipfStep] at *
    exact List.mem_map.mpr ⟨o, List.mem_append_right _ ho, rfl⟩
end Step

/-! ### Product form -/

section Product
variable {σ : Type} [DecidableEq σ]

/-- `q` has *product form* over `groups`: every stored value is a constant times a product of
factors, one for each distinct group, each factor depending on the outcome only through its
projection on that group: `q(o) = c · Π_g φ_g(o_g)`. -/
def ProductForm (groups : List (List Nat)) (q : Tab (List σ) ℝ) : Prop :=
  ∃ (c : ℝ) (φ : List Nat → List σ → ℝ), ∀ r ∈ q,
    r.2 = c * ((dedup groups).map (fun g => φ g (project g r.1))).prod

/-- Changing one factor of a product over a duplicate-free index list. -/
theorem prod_map_update {ι : Type} (l : List ι) (hl : l.Nodup) (g : ι) (hg : g ∈ l)
    (A B : ι → ℝ) (c : ℝ) (hne : ∀ h ∈ l, h ≠ g → B h = A h) (hgc : B g = A g * c) :
    (l.map B).prod = (l.map A).prod * c := by
  induction l with
  | nil => simp at hg
  | cons y l ih =>
    rw [List.nodup_cons] at hl
    rw [List.map_cons, List.prod_cons, List.map_cons, List.prod_cons]
    by_cases hy : y = g
    · subst hy
      have : l.map B = l.map A :=
        List.map_congr_left (fun h hh => hne h (List.mem_cons_of_mem _ hh)
          (fun e => hl.1 (e ▸ hh)))
      rw [this, hgc]; ring
    · have hg' : g ∈ l := by
        rcases List.mem_cons.mp hg with e | e
        · exact absurd e.symm hy
        · exact e
      rw [hne y (by simp) hy,
        ih hl.2 hg' (fun h hh => hne h (List.mem_cons_of_mem _ hh))]
      ring

/-- **An IPF step keeps the product form**: the factor of the fitted group `g` is multiplied by
`P_t(o_g) / P_q(o_g)`, all other factors and the constant are unchanged. -/
theorem ipfStep_productForm (t q : Tab (List σ) ℝ) (groups : List (List Nat)) (g : List Nat)
    (hg : g ∈ groups) (h : ProductForm groups q) : ProductForm groups (ipfStep t q g) := by
  obtain ⟨c, φ, hφ⟩ := h
  refine ⟨c, fun g' x => if g' = g then φ g x * (margAt t g x / margAt q g x) else φ g' x, ?_⟩
  rw [ipfStep_eq]
  intro r hr
  obtain ⟨r', hr', rfl⟩ := List.mem_map.mp hr
  simp only
  rw [prod_map_update (dedup groups) (nodup_dedup groups) g (mem_dedup.mpr hg)
    (fun g' => φ g' (project g' r'.1)) _
    (margAt t g (project g r'.1) / margAt q g (project g r'.1))
    (fun h _ hne => by simp [hne]) (by simp), hφ r' hr']
  ring

/-- The uniform table has product form (all factors 1, constant `1/N`). -/
theorem uniformOn_productForm (groups : List (List Nat)) (space : List (List σ)) :
    ProductForm groups (uniformOn (fun n : Nat => (n : ℝ)) space) := by
  refine ⟨1 / (space.length : ℝ), fun _ _ => 1, ?_⟩
  intro r hr
  obtain ⟨o, _, rfl⟩ := List.mem_map.mp hr
  simp

theorem foldl_ipfStep_productForm (t : Tab (List σ) ℝ) (groups gs : List (List Nat))
    (hgs : ∀ g ∈ gs, g ∈ groups) (q : Tab (List σ) ℝ) (h : ProductForm groups q) :
    ProductForm groups (gs.foldl (fun q' g => ipfStep t q' g) q) := by
  induction gs generalizing q with
  | nil => exact h
  | cons g gs ih =>
    rw [List.foldl_cons]
    exact ih (fun g' hg' => hgs g' (List.mem_cons_of_mem _ hg')) _
      (ipfStep_productForm t q groups g (hgs g (by simp)) h)

theorem ipfSweep_productForm (t q : Tab (List σ) ℝ) (groups : List (List Nat))
    (h : ProductForm groups q) : ProductForm groups (ipfSweep t q groups) :=
  foldl_ipfStep_productForm t groups groups (fun _ hg => hg) q h

/-- Every IPF iterate started from a table of product form has product form. -/
theorem ipf_productForm (t q0 : Tab (List σ) ℝ) (groups : List (List Nat))
    (h : ProductForm groups q0) (n : Nat) : ProductForm groups (ipf t groups q0 n) := by
  induction n with
  | zero => exact h
  | succ n ih => exact ipfSweep_productForm t _ groups ih

end Product

section Iter
variable {σ : Type} [DecidableEq σ]

theorem keys_foldl_ipfStep (t : Tab (List σ) ℝ) (gs : List (List Nat)) (q : Tab (List σ) ℝ) :
    keys (gs.foldl (fun q' g => ipfStep t q' g) q) = keys q := by
  induction gs generalizing q with
  | nil => rfl
  | cons g gs ih => rw [List.foldl_cons, ih, keys_ipfStep]

theorem keys_ipfSweep (t q : Tab (List σ) ℝ) (groups : List (List Nat)) :
    keys (ipfSweep t q groups) = keys q := keys_foldl_ipfStep t groups q

theorem keys_ipf (t q0 : Tab (List σ) ℝ) (groups : List (List Nat)) (n : Nat) :
    keys (ipf t groups q0 n) = keys q0 := by
  induction n with
  | zero => rfl
  | succ n ih => exact (keys_ipfSweep t _ groups).trans ih

theorem foldl_ipfStep_nonneg (t : Tab (List σ) ℝ) (ht : ∀ r ∈ t, 0 ≤ r.2) (gs : List (List Nat))
    (q : Tab (List σ) ℝ) (hq : ∀ r ∈ q, 0 ≤ r.2) :
    ∀ r ∈ gs.foldl (fun q' g => ipfStep t q' g) q, 0 ≤ r.2 := by
  induction gs generalizing q with
  | nil => exact hq
  | cons g gs ih => rw [List.foldl_cons]; exact ih _ (ipfStep_nonneg t q g ht hq)

theorem ipf_nonneg (t q0 : Tab (List σ) ℝ) (groups : List (List Nat)) (ht : ∀ r ∈ t, 0 ≤ r.2)
    (hq : ∀ r ∈ q0, 0 ≤ r.2) (n : Nat) : ∀ r ∈ ipf t groups q0 n, 0 ≤ r.2 := by
  induction n with
  | zero => exact hq
  | succ n ih => exact foldl_ipfStep_nonneg t ht groups _ ih

end Iter

/-! ### Tables on a sample space as graphs of functions -/

section Graph
variable {κ : Type} [DecidableEq κ]

/-- A table whose keys are the duplicate-free list `space` is the graph of its lookup function
over `space`. -/
theorem eq_graph {t : Tab κ ℝ} {space : List κ} (hk : keys t = space) (hnd : space.Nodup) :
    t = space.map (fun o => (o, lookupD 0 t o)) := by
  subst hk
  unfold keys
  rw [List.map_map]
  conv_lhs => rw [← List.map_id t]
  apply List.map_congr_left
  intro r hr
  simp only [id, Function.comp_apply]
  rw [Dit.Lemmas.Diverge.lookupD_of_mem hnd hr]

theorem vals_eq_map {t : Tab κ ℝ} {space : List κ} (hk : keys t = space) (hnd : space.Nodup) :
    vals t = space.map (fun o => lookupD 0 t o) := by
  conv_lhs => rw [eq_graph hk hnd]
  simp [vals, Function.comp_def]

theorem lookupD_nonneg {t : Tab κ ℝ} (h : ∀ r ∈ t, 0 ≤ r.2) (o : κ) : 0 ≤ lookupD 0 t o := by
  unfold lookupD
  cases hl : lookup? t o with
  | none => simp
  | some v => exact h (o, v) (mem_of_lookup?_eq_some hl)

theorem mass_eq_sum_lookupD {t : Tab κ ℝ} {space : List κ} (hk : keys t = space)
    (hnd : space.Nodup) : mass t = (space.map (fun o => lookupD 0 t o)).sum := by
  rw [mass_eq_sum, vals_eq_map hk hnd]

/-- Two tables on the same duplicate-free space with the same lookup function are equal. -/
theorem eq_of_lookupD_eq {p q : Tab κ ℝ} {space : List κ} (hp : keys p = space)
    (hq : keys q = space) (hnd : space.Nodup) (h : ∀ o ∈ space, lookupD 0 p o = lookupD 0 q o) :
    p = q := by
  rw [eq_graph hp hnd, eq_graph hq hnd]
  exact List.map_congr_left (fun o ho => by rw [h o ho])

end Graph

/-! ### Disintegration -/

section Disint
open Dit.Lemmas.Diverge

/-- **Disintegration with a test function.** `Σ_rows v · h(f key) = Σ_x P(f = x) · h(x)`, the
outer sum over any duplicate-free list containing the images of all stored keys. -/
theorem sum_rows_fibre {κ κ' : Type} [DecidableEq κ'] {l : List κ'} (hl : l.Nodup) (f : κ → κ')
    (h : κ' → ℝ) (t : Tab κ ℝ) (hf : ∀ k ∈ keys t, f k ∈ l) :
    (t.map (fun r => r.2 * h (f r.1))).sum
      = (l.map (fun x => wtBy (fun k => f k = x) t * h x)).sum := by
  induction t with
  | nil => simp
  | cons r t ih =>
    have ih' := ih (fun k hk => hf k (List.mem_cons_of_mem _ hk))
    have hr : f r.1 ∈ l := hf r.1 (by simp)
    have e : (fun x => wtBy (fun k => f k = x) (r :: t) * h x)
        = fun x => (if f r.1 = x then r.2 * h x else 0) + wtBy (fun k => f k = x) t * h x := by
      funext x
      rw [wtBy_cons]
      by_cases hx : f r.1 = x <;> simp [hx, add_mul]
    rw [e, List.sum_map_add, ← ih', sum_map_ite_eq_of_nodup hl hr (fun x => r.2 * h x),
      List.map_cons, List.sum_cons]

variable {σ : Type} [DecidableEq σ]

/-- Disintegration along a variable group. -/
theorem sum_rows_margAt (t : Tab (List σ) ℝ) (g : List Nat) (h : List σ → ℝ)
    {l : List (List σ)} (hl : l.Nodup) (hf : ∀ o ∈ keys t, project g o ∈ l) :
    (t.map (fun r => r.2 * h (project g r.1))).sum
      = (l.map (fun x => margAt t g x * h x)).sum := by
  rw [sum_rows_fibre hl (project g) h t hf]
  congr 1
  exact List.map_congr_left (fun x _ => by rw [margAt_eq_wtBy])

/-- The expectation of a function of `o_g` only depends on the `g`-marginal. -/
theorem sum_rows_eq_of_margAt_eq (p q : Tab (List σ) ℝ) (g : List Nat) (h : List σ → ℝ)
    (hm : ∀ x, margAt p g x = margAt q g x) :
    (p.map (fun r => r.2 * h (project g r.1))).sum
      = (q.map (fun r => r.2 * h (project g r.1))).sum := by
  have hl := nodup_dedup ((keys p ++ keys q).map (project g))
  rw [sum_rows_margAt p g h hl, sum_rows_margAt q g h hl]
  · congr 1
    exact List.map_congr_left (fun x _ => by rw [hm x])
  · intro o ho; rw [mem_dedup]; exact List.mem_map.mpr ⟨o, List.mem_append_right _ ho, rfl⟩
  · intro o ho; rw [mem_dedup]; exact List.mem_map.mpr ⟨o, List.mem_append_left _ ho, rfl⟩

/-- The expectation of a log-linear function `c + Σ_g ψ_g(o_g)` is the same under two tables
of equal mass with equal marginals on every group. -/
theorem sum_loglinear_eq (p q : Tab (List σ) ℝ) (groups : List (List Nat)) (c : ℝ)
    (ψ : List Nat → List σ → ℝ) (hmass : mass p = mass q)
    (hm : ∀ g ∈ groups, ∀ x, margAt p g x = margAt q g x) :
    (p.map (fun r => r.2 * (c + (groups.map (fun g => ψ g (project g r.1))).sum))).sum
      = (q.map (fun r => r.2 * (c + (groups.map (fun g => ψ g (project g r.1))).sum))).sum := by
  have expand : ∀ T : Tab (List σ) ℝ,
      (T.map (fun r => r.2 * (c + (groups.map (fun g => ψ g (project g r.1))).sum))).sum
        = mass T * c
          + (groups.map (fun g => (T.map (fun r => r.2 * ψ g (project g r.1))).sum)).sum := by
    intro T
    rw [← sum_comm, mass_eq_sum, vals, ← sum_map_mul_right, ← sum_map_add]
    congr 1
    apply List.map_congr_left
    intro r _
    rw [sum_map_mul_left]; ring
  rw [expand p, expand q, hmass]
  congr 2
  apply List.map_congr_left
  intro g hg
  exact sum_rows_eq_of_margAt_eq p q g (ψ g) (hm g hg)

end Disint

/-! ### The Pythagorean identity -/

section Pyth
open Dit.Lemmas.Diverge Dit.Lemmas.InfoReal
variable {σ : Type} [DecidableEq σ]

/-- Label alignment of two tables, the first on a duplicate-free space. -/
theorem alignPair_eq {κ : Type} [DecidableEq κ] (p q : Tab κ ℝ) {space : List κ}
    (hp : keys p = space) (hnd : space.Nodup) :
    alignPair p q = space.map (fun o => (lookupD 0 p o, lookupD 0 q o)) := by
  unfold alignPair
  conv_lhs => rw [eq_graph hp hnd]
  rw [List.map_map]
  rfl

theorem alignPair_fst {κ : Type} [DecidableEq κ] (p q : Tab κ ℝ) :
    (alignPair p q).map Prod.fst = vals p := by
  simp [alignPair, vals, Function.comp_def]

theorem alignPair_snd {κ : Type} [DecidableEq κ] (p q : Tab κ ℝ) {space : List κ}
    (hp : keys p = space) (hq : keys q = space) (hnd : space.Nodup) :
    (alignPair p q).map Prod.snd = vals q := by
  rw [alignPair_eq p q hp hnd, vals_eq_map hq hnd, List.map_map]
  rfl

theorem absCont_alignPair {κ : Type} [DecidableEq κ] (p q : Tab κ ℝ) {space : List κ}
    (hp : keys p = space) (hnd : space.Nodup)
    (hsupp : ∀ o ∈ space, lookupD 0 q o = 0 → lookupD 0 p o = 0) :
    absCont (alignPair p q) = true := by
  rw [absCont_iff, alignPair_eq p q hp hnd]
  intro r hr h2
  obtain ⟨o, ho, rfl⟩ := List.mem_map.mp hr
  exact hsupp o ho h2

/-- Entropy of a log-linear table: `H(q) = −E_q[c + Σ_g ψ_g]`. -/
theorem entropy_loglinear (q : Tab (List σ) ℝ) {space : List (List σ)} (hq : keys q = space)
    (hnd : space.Nodup) (groups : List (List Nat)) (c : ℝ) (ψ : List Nat → List σ → ℝ)
    (hlog : ∀ o ∈ space, lookupD 0 q o ≠ 0 →
      Real.logb 2 (lookupD 0 q o) = c + (groups.map (fun g => ψ g (project g o))).sum) :
    entropyVals (Real.logb 2) (vals q)
      = -(q.map (fun r => r.2 * (c + (groups.map (fun g => ψ g (project g r.1))).sum))).sum := by
  rw [entropyVals_eq_sum, vals, List.map_map]
  congr 2
  apply List.map_congr_left
  intro r hr
  simp only [Function.comp_apply]
  by_cases h0 : r.2 = 0
  · simp [h0]
  · have hl : lookupD 0 q r.1 = r.2 := lookupD_of_mem (hq ▸ hnd) hr
    have hmem : r.1 ∈ space := hq ▸ mem_keys_of_mem hr
    rw [← hlog r.1 hmem (by rw [hl]; exact h0), hl]

/-- Cross entropy against a log-linear table: `−Σ p log q = −E_p[c + Σ_g ψ_g]`, when the support
of `p` is inside that of `q`. -/
theorem xent_loglinear (p q : Tab (List σ) ℝ) {space : List (List σ)} (hp : keys p = space)
    (hnd : space.Nodup) (groups : List (List Nat)) (c : ℝ) (ψ : List Nat → List σ → ℝ)
    (hlog : ∀ o ∈ space, lookupD 0 q o ≠ 0 →
      Real.logb 2 (lookupD 0 q o) = c + (groups.map (fun g => ψ g (project g o))).sum)
    (hsupp : ∀ o ∈ space, lookupD 0 q o = 0 → lookupD 0 p o = 0) :
    xentSum (alignPair p q)
      = -(p.map (fun r => r.2 * (c + (groups.map (fun g => ψ g (project g r.1))).sum))).sum := by
  unfold xentSum alignPair
  rw [List.map_map]
  congr 2
  apply List.map_congr_left
  intro r hr
  simp only [Function.comp_apply]
  by_cases h0 : r.2 = 0
  · simp [h0]
  · have hl : lookupD 0 p r.1 = r.2 := lookupD_of_mem (hp ▸ hnd) hr
    have hmem : r.1 ∈ space := hp ▸ mem_keys_of_mem hr
    have hq0 : lookupD 0 q r.1 ≠ 0 := fun e => h0 (by rw [← hl]; exact hsupp r.1 hmem e)
    rw [hlog r.1 hmem hq0]

/-- **Pythagorean identity.** If `q` is log-linear on its support over `groups`, `p` has the same
mass and the same marginals on every group, and `supp p ⊆ supp q`, then
`D(p‖q) = H(q) − H(p)`. -/
theorem klSum_eq_entropy_sub (p q : Tab (List σ) ℝ) {space : List (List σ)}
    (hp : keys p = space) (hq : keys q = space) (hnd : space.Nodup)
    (groups : List (List Nat)) (c : ℝ) (ψ : List Nat → List σ → ℝ)
    (hmass : mass p = mass q)
    (hm : ∀ g ∈ groups, ∀ x, margAt p g x = margAt q g x)
    (hlog : ∀ o ∈ space, lookupD 0 q o ≠ 0 →
      Real.logb 2 (lookupD 0 q o) = c + (groups.map (fun g => ψ g (project g o))).sum)
    (hsupp : ∀ o ∈ space, lookupD 0 q o = 0 → lookupD 0 p o = 0) :
    klSum (alignPair p q)
      = entropyVals (Real.logb 2) (vals q) - entropyVals (Real.logb 2) (vals p) := by
  have hac := absCont_alignPair p q hp hnd hsupp
  have h1 := xentSum_eq (alignPair p q) hac
  rw [alignPair_fst, xent_loglinear p q hp hnd groups c ψ hlog hsupp,
    sum_loglinear_eq p q groups c ψ hmass hm,
    ← entropy_loglinear q hq hnd groups c ψ hlog] at h1
  linarith

end Pyth

/-! ### Sums of product weights over a Cartesian product -/

section Cart
open Dit.Lemmas.Diverge
variable {σ : Type} [DecidableEq σ]

/-- Product weight of an outcome: `Π_j F j (o_j)`. -/
def pw (F : Nat → σ → ℝ) : List σ → ℝ
  | [] => 1
  | a :: o => F 0 a * pw (fun j => F (j + 1)) o

/-- `Π_j Σ_{a ∈ as_j} F j a`. -/
def cprod (F : Nat → σ → ℝ) : List (List σ) → ℝ
  | [] => 1
  | a :: rest => (a.map (F 0)).sum * cprod (fun j => F (j + 1)) rest

theorem sum_flatMap_map {β γ : Type} (l : List β) (f : β → List γ) (h : γ → ℝ) :
    ((l.flatMap f).map h).sum = (l.map (fun x => ((f x).map h).sum)).sum := by
  induction l with
  | nil => simp
  | cons x l ih => simp [List.flatMap_cons, ih]

/-- **Sum of a product = product of sums** over a Cartesian product. -/
theorem sum_cartesian_pw (F : Nat → σ → ℝ) (as : List (List σ)) :
    ((cartesian as).map (pw F)).sum = cprod F as := by
  induction as generalizing F with
  | nil => simp [cartesian, pw, cprod]
  | cons a rest ih =>
    unfold cartesian cprod
    rw [sum_flatMap_map, ← sum_map_mul_right]
    congr 1
    apply List.map_congr_left
    intro x _
    rw [List.map_map, ← ih, ← sum_map_mul_left]
    rfl

/-- Restrict factor `i` to the symbol `x0`. -/
def restrict (F : Nat → σ → ℝ) (i : Nat) (x0 : σ) : Nat → σ → ℝ :=
  fun j a => if j = i then (if a = x0 then F j a else 0) else F j a

theorem restrict_zero_succ (F : Nat → σ → ℝ) (x0 : σ) :
    (fun j => restrict F 0 x0 (j + 1)) = fun j => F (j + 1) := by
  funext j a; simp [restrict]

theorem restrict_succ_succ (F : Nat → σ → ℝ) (i : Nat) (x0 : σ) :
    (fun j => restrict F (i + 1) x0 (j + 1)) = restrict (fun j => F (j + 1)) i x0 := by
  funext j a; simp [restrict]

theorem pw_restrict (F : Nat → σ → ℝ) (i : Nat) (x0 : σ) (o : List σ) (hi : i < o.length) :
    pw (restrict F i x0) o = if o[i]? = some x0 then pw F o else 0 := by
  induction o generalizing F i with
  | nil => simp at hi
  | cons a o ih =>
    cases i with
    | zero =>
      simp only [pw, restrict_zero_succ, List.getElem?_cons_zero, Option.some.injEq]
      by_cases h : a = x0 <;> simp [restrict, h]
    | succ i =>
      simp only [pw, restrict_succ_succ, List.getElem?_cons_succ]
      rw [ih _ i (by simpa using hi)]
      by_cases h : o[i]? = some x0 <;> simp [restrict, h]

theorem cprod_eq_one (F : Nat → σ → ℝ) (as : List (List σ))
    (h : ∀ j, j < as.length → ((as.getD j []).map (F j)).sum = 1) : cprod F as = 1 := by
  induction as generalizing F with
  | nil => rfl
  | cons a rest ih =>
    unfold cprod
    have h0 := h 0 (by simp)
    simp only [List.getD_cons_zero] at h0
    rw [h0, one_mul]
    apply ih
    intro j hj
    have := h (j + 1) (by simpa using hj)
    simpa using this

theorem sum_map_ite_eq (l : List σ) (hl : l.Nodup) (x0 : σ) (f : σ → ℝ) :
    (l.map (fun a => if a = x0 then f a else 0)).sum = if x0 ∈ l then f x0 else 0 := by
  by_cases hx : x0 ∈ l
  · rw [if_pos hx, ← sum_map_ite_eq_of_nodup hl hx f]
    congr 1
    apply List.map_congr_left
    intro a _
    by_cases h : a = x0
    · subst h; simp
    · have h' : ¬ x0 = a := fun e => h e.symm
      simp [h, h']
  · rw [if_neg hx]
    apply List.sum_eq_zero
    intro z hz
    obtain ⟨a, ha, rfl⟩ := List.mem_map.mp hz
    have : a ≠ x0 := fun e => hx (e ▸ ha)
    simp [this]

theorem cprod_restrict (F : Nat → σ → ℝ) (i : Nat) (x0 : σ) (as : List (List σ))
    (hi : i < as.length) (hnd : (as.getD i []).Nodup)
    (h : ∀ j, j < as.length → j ≠ i → ((as.getD j []).map (F j)).sum = 1) :
    cprod (restrict F i x0) as = if x0 ∈ as.getD i [] then F i x0 else 0 := by
  induction as generalizing F i with
  | nil => simp at hi
  | cons a rest ih =>
    cases i with
    | zero =>
      unfold cprod
      rw [restrict_zero_succ, cprod_eq_one]
      · simp only [List.getD_cons_zero] at hnd ⊢
        rw [mul_one, ← sum_map_ite_eq a hnd x0 (F 0)]
        congr 1
      · intro j hj
        have := h (j + 1) (by simpa using hj) (by omega)
        simpa using this
    | succ i =>
      unfold cprod
      rw [restrict_succ_succ]
      have h0 := h 0 (by simp) (by omega)
      simp only [List.getD_cons_zero] at h0
      have e : (a.map (restrict F (i + 1) x0 0)) = a.map (F 0) := by
        apply List.map_congr_left; intro y _; simp [restrict]
      rw [e, h0, one_mul]
      have := ih (fun j => F (j + 1)) i (by simpa using hi) (by simpa using hnd)
        (by
          intro j hj hne
          have := h (j + 1) (by simpa using hj) (by omega)
          simpa using this)
      simpa using this

end Cart

/-! ### Product of marginals; singleton constraints -/

section Singletons
open Dit.Lemmas.Diverge
variable {σ : Type} [DecidableEq σ]

/-- The singleton groups `[[0], …, [n-1]]`. -/
def singletons (n : Nat) : List (List Nat) := (List.range n).map (fun i => [i])

/-- Product of the marginals of `t` on the given groups, as a table on `space`:
`o ↦ Π_g P_t(o_g)`. -/
noncomputable def prodMarg (t : Tab (List σ) ℝ) (groups : List (List Nat))
    (space : List (List σ)) : Tab (List σ) ℝ :=
  space.map (fun o => (o, (groups.map (fun g => margAt t g (project g o))).prod))

theorem keys_prodMarg (t : Tab (List σ) ℝ) (groups : List (List Nat)) (space : List (List σ)) :
    keys (prodMarg t groups space) = space := keys_map_graph _ _

theorem lookupD_prodMarg (t : Tab (List σ) ℝ) (groups : List (List Nat)) (space : List (List σ))
    (o : List σ) (ho : o ∈ space) :
    lookupD 0 (prodMarg t groups space) o = (groups.map (fun g => margAt t g (project g o))).prod := by
  unfold lookupD prodMarg
  rw [lookup?_map_graph]; simp [ho]

theorem prodMarg_nonneg (t : Tab (List σ) ℝ) (ht : ∀ r ∈ t, 0 ≤ r.2) (groups : List (List Nat))
    (space : List (List σ)) : ∀ r ∈ prodMarg t groups space, 0 ≤ r.2 := by
  intro r hr
  obtain ⟨o, _, rfl⟩ := List.mem_map.mp hr
  simp only
  generalize groups = gs
  induction gs with
  | nil => simp
  | cons g gs ih =>
    rw [List.map_cons, List.prod_cons]
    exact mul_nonneg (margAt_nonneg t ht g _) ih

theorem project_single (i : Nat) (o : List σ) : project [i] o = (o[i]?).toList := by
  unfold project
  rw [List.filterMap_cons]
  cases o[i]? <;> rfl

theorem prod_range_eq_pw (G : Nat → List σ → ℝ) (o : List σ) :
    ((List.range o.length).map (fun i => G i (project [i] o))).prod
      = pw (fun i a => G i [a]) o := by
  induction o generalizing G with
  | nil => simp [pw]
  | cons a o ih =>
    rw [List.length_cons, List.range_succ_eq_map, List.map_cons, List.prod_cons, List.map_map]
    unfold pw
    rw [← ih (fun i => G (i + 1))]
    rfl

theorem map_singletons {β : Type} (n : Nat) (H : List Nat → β) :
    (singletons n).map H = (List.range n).map (fun i => H [i]) := by
  simp [singletons, Function.comp_def]

/-- Membership in a Cartesian product, component form with `getD`. -/
theorem getElem?_mem_of_mem_cartesian {as : List (List σ)} {o : List σ} (ho : o ∈ cartesian as)
    (j : Nat) (hj : j < as.length) : ∃ a, o[j]? = some a ∧ a ∈ as.getD j [] := by
  obtain ⟨hlen, h⟩ := mem_cartesian_iff_getElem.mp ho
  have hj' : j < o.length := hlen ▸ hj
  refine ⟨o[j], List.getElem?_eq_getElem hj', ?_⟩
  have := h j hj' hj
  simpa [List.getD_eq_getElem?_getD, List.getElem?_eq_getElem hj] using this

/-- The one-variable marginal of a table on a Cartesian space sums to the total mass over the
alphabet. -/
theorem sum_margAt_single (t : Tab (List σ) ℝ) (as : List (List σ)) (hnd : ∀ a ∈ as, a.Nodup)
    (hk : keys t = cartesian as) (j : Nat) (hj : j < as.length) :
    ((as.getD j []).map (fun a => margAt t [j] [a])).sum = mass t := by
  have hmem : as.getD j [] ∈ as := by
    rw [List.getD_eq_getElem?_getD, List.getElem?_eq_getElem hj]; exact List.getElem_mem hj
  have hl : ((as.getD j []).map (fun a => [a])).Nodup :=
    (hnd _ hmem).map (fun a b e => by injection e)
  have := sum_margAt t [j] hl (by
    intro o ho
    rw [hk] at ho
    obtain ⟨a, ha, hma⟩ := getElem?_mem_of_mem_cartesian ho j hj
    rw [project_single, ha]
    exact List.mem_map.mpr ⟨a, hma, rfl⟩)
  rw [← this, List.map_map]
  rfl

end Singletons

section Singletons2
open Dit.Lemmas.Diverge
variable {σ : Type} [DecidableEq σ]

/-- On the Cartesian space the product of the one-variable marginals is a product weight. -/
theorem prodMarg_singletons_eq (t : Tab (List σ) ℝ) (as : List (List σ)) :
    prodMarg t (singletons as.length) (cartesian as)
      = (cartesian as).map (fun o => (o, pw (fun i a => margAt t [i] [a]) o)) := by
  unfold prodMarg
  apply List.map_congr_left
  intro o ho
  rw [map_singletons, ← length_of_mem_cartesian ho,
    prod_range_eq_pw (fun i x => margAt t [i] x) o]

theorem mass_prodMarg_singletons (t : Tab (List σ) ℝ) (as : List (List σ))
    (hnd : ∀ a ∈ as, a.Nodup) (hk : keys t = cartesian as) (hmass : mass t = 1) :
    mass (prodMarg t (singletons as.length) (cartesian as)) = 1 := by
  rw [prodMarg_singletons_eq, mass_eq_sum, vals, List.map_map]
  have : ((fun r : List σ × ℝ => r.2) ∘ fun o => (o, pw (fun i a => margAt t [i] [a]) o))
      = pw (fun i a => margAt t [i] [a]) := rfl
  rw [this, sum_cartesian_pw]
  apply cprod_eq_one
  intro j hj
  rw [sum_margAt_single t as hnd hk j hj, hmass]

/-- **The product of the one-variable marginals has those marginals.** -/
theorem margAt_prodMarg_singletons (t : Tab (List σ) ℝ) (as : List (List σ))
    (hnd : ∀ a ∈ as, a.Nodup) (hk : keys t = cartesian as) (hmass : mass t = 1)
    (i : Nat) (hi : i < as.length) (x : List σ) :
    margAt (prodMarg t (singletons as.length) (cartesian as)) [i] x = margAt t [i] x := by
  by_cases hx : ∃ x0, x = [x0]
  · obtain ⟨x0, rfl⟩ := hx
    rw [prodMarg_singletons_eq, margAt_eq_wtBy, wtBy_map_graph]
    have e : ∀ o ∈ cartesian as,
        (if project [i] o = [x0] then pw (fun i a => margAt t [i] [a]) o else 0)
          = pw (restrict (fun i a => margAt t [i] [a]) i x0) o := by
      intro o ho
      have hlen := length_of_mem_cartesian ho
      rw [pw_restrict _ i x0 o (hlen ▸ hi), project_single]
      cases h : o[i]? with
      | none => simp
      | some a => simp
    rw [List.map_congr_left e, sum_cartesian_pw, cprod_restrict _ i x0 as hi]
    · by_cases hm : x0 ∈ as.getD i []
      · rw [if_pos hm]
      · rw [if_neg hm]
        symm
        apply margAt_eq_zero_of_not_image
        intro o ho
        rw [hk] at ho
        obtain ⟨a, ha, hma⟩ := getElem?_mem_of_mem_cartesian ho i hi
        rw [project_single, ha]
        intro e'
        simp only [Option.toList_some, List.cons.injEq, and_true] at e'
        exact hm (e' ▸ hma)
    · have hmem : as.getD i [] ∈ as := by
        rw [List.getD_eq_getElem?_getD, List.getElem?_eq_getElem hi]; exact List.getElem_mem hi
      exact hnd _ hmem
    · intro j hj _
      rw [sum_margAt_single t as hnd hk j hj, hmass]
  · have hne : ∀ o ∈ cartesian as, project [i] o ≠ x := by
      intro o ho e
      obtain ⟨a, ha, _⟩ := getElem?_mem_of_mem_cartesian ho i hi
      rw [project_single, ha] at e
      exact hx ⟨a, e.symm⟩
    rw [margAt_eq_zero_of_not_image _ _ _ (by rw [keys_prodMarg]; exact hne),
      margAt_eq_zero_of_not_image _ _ _ (by rw [hk]; exact hne)]

end Singletons2

/-! ### From product form to log-linear form; supports -/

section LogLinear
open Dit.Lemmas.Diverge Dit.Lemmas.InfoReal
variable {σ : Type} [DecidableEq σ]

theorem prod_ne_zero_iff (l : List ℝ) : l.prod ≠ 0 ↔ ∀ x ∈ l, x ≠ 0 := by
  induction l with
  | nil => simp
  | cons a l ih =>
    simp only [List.prod_cons, mul_ne_zero_iff, ih, List.mem_cons, forall_eq_or_imp]

theorem logb_prod (l : List ℝ) (h : ∀ x ∈ l, x ≠ 0) :
    Real.logb 2 l.prod = (l.map (Real.logb 2)).sum := by
  induction l with
  | nil => simp
  | cons a l ih =>
    have hl : ∀ x ∈ l, x ≠ 0 := fun x hx => h x (List.mem_cons_of_mem _ hx)
    rw [List.prod_cons, List.map_cons, List.sum_cons,
      Real.logb_mul (h a (by simp)) ((prod_ne_zero_iff l).mpr hl), ih hl]

/-- A stored outcome of a table on a duplicate-free space is stored with its lookup value. -/
theorem mem_of_mem_space {κ : Type} [DecidableEq κ] {t : Tab κ ℝ} {space : List κ}
    (hk : keys t = space) (hnd : space.Nodup) {o : κ} (ho : o ∈ space) :
    (o, lookupD 0 t o) ∈ t := by
  obtain ⟨v, hv⟩ := mem_keys.mp (hk ▸ ho)
  have := lookupD_of_mem (hk ▸ hnd) hv
  simp only at this
  rw [this]; exact hv

/-- **Product form gives log-linear form on the support**: with `ψ_g = log₂ φ_g` and constant
`log₂ c`. -/
theorem ProductForm.loglinear {groups : List (List Nat)} {q : Tab (List σ) ℝ}
    (h : ProductForm groups q) {space : List (List σ)} (hq : keys q = space) (hnd : space.Nodup) :
    ∃ (c : ℝ) (ψ : List Nat → List σ → ℝ), ∀ o ∈ space, lookupD 0 q o ≠ 0 →
      Real.logb 2 (lookupD 0 q o) = c + ((dedup groups).map (fun g => ψ g (project g o))).sum := by
  obtain ⟨c, φ, hφ⟩ := h
  refine ⟨Real.logb 2 c, fun g x => Real.logb 2 (φ g x), ?_⟩
  intro o ho hne
  have hv := hφ _ (mem_of_mem_space hq hnd ho)
  simp only at hv
  rw [hv] at hne ⊢
  have hc : c ≠ 0 := left_ne_zero_of_mul hne
  have hp := right_ne_zero_of_mul hne
  rw [Real.logb_mul hc hp, logb_prod _ ((prod_ne_zero_iff _).mp hp), List.map_map]
  rfl

/-- In a non-negative table an outcome whose projection has marginal zero has value zero. -/
theorem lookupD_eq_zero_of_margAt_eq_zero (p : Tab (List σ) ℝ) (hp : ∀ r ∈ p, 0 ≤ r.2)
    (g : List Nat) (o : List σ) (h : margAt p g (project g o) = 0) : lookupD 0 p o = 0 := by
  unfold lookupD
  cases hl : lookup? p o with
  | none => rfl
  | some v =>
    have hm := mem_of_lookup?_eq_some hl
    have h1 := le_margAt p hp g (o, v) hm
    have h2 := hp (o, v) hm
    simp only at h1 h2
    simp only [Option.getD_some]
    linarith

/-- If the support of `q` is the whole *marginal support* (every outcome with `q(o) = 0` has a
vanishing `q`-marginal on some group), then every non-negative table with the same marginals has
its support inside that of `q`. -/
theorem supp_subset_of_marginal_support (p q : Tab (List σ) ℝ) (hp : ∀ r ∈ p, 0 ≤ r.2)
    (groups : List (List Nat)) (hm : ∀ g ∈ groups, ∀ x, margAt p g x = margAt q g x)
    (space : List (List σ))
    (hfull : ∀ o ∈ space, lookupD 0 q o = 0 → ∃ g ∈ groups, margAt q g (project g o) = 0) :
    ∀ o ∈ space, lookupD 0 q o = 0 → lookupD 0 p o = 0 := by
  intro o ho h0
  obtain ⟨g, hg, hz⟩ := hfull o ho h0
  exact lookupD_eq_zero_of_margAt_eq_zero p hp g o (by rw [hm g hg]; exact hz)

/-- The product of marginals is log-linear with `ψ_g = log₂ P_t(g = ·)` and constant 0. -/
theorem prodMarg_loglinear (t : Tab (List σ) ℝ) (groups : List (List Nat))
    (space : List (List σ)) :
    ∀ o ∈ space, lookupD 0 (prodMarg t groups space) o ≠ 0 →
      Real.logb 2 (lookupD 0 (prodMarg t groups space) o)
        = 0 + (groups.map (fun g => Real.logb 2 (margAt t g (project g o)))).sum := by
  intro o ho hne
  rw [lookupD_prodMarg t groups space o ho] at hne ⊢
  rw [logb_prod _ ((prod_ne_zero_iff _).mp hne), List.map_map, zero_add]
  rfl

/-- The support of the product of marginals is the whole marginal support. -/
theorem prodMarg_marginal_support (t : Tab (List σ) ℝ) (groups : List (List Nat))
    (space : List (List σ)) :
    ∀ o ∈ space, lookupD 0 (prodMarg t groups space) o = 0 →
      ∃ g ∈ groups, margAt t g (project g o) = 0 := by
  intro o ho h0
  rw [lookupD_prodMarg t groups space o ho] at h0
  by_contra hcon
  have : ∀ x ∈ groups.map (fun g => margAt t g (project g o)), x ≠ 0 := by
    intro x hx
    obtain ⟨g, hg, rfl⟩ := List.mem_map.mp hx
    exact fun e => hcon ⟨g, hg, e⟩
  exact (prod_ne_zero_iff _).mpr this h0

/-- Entropy of a table that is log-linear in the logarithms of the marginals of `t` and has the
marginals of `t`: the sum of the marginal entropies. -/
theorem entropy_eq_sum_entropyOf (t q : Tab (List σ) ℝ) {space : List (List σ)}
    (hq : keys q = space) (hnd : space.Nodup) (groups : List (List Nat))
    (hmass : mass q = mass t) (hm : ∀ g ∈ groups, ∀ x, margAt q g x = margAt t g x)
    (hlog : ∀ o ∈ space, lookupD 0 q o ≠ 0 →
      Real.logb 2 (lookupD 0 q o)
        = 0 + (groups.map (fun g => Real.logb 2 (margAt t g (project g o)))).sum) :
    entropyVals (Real.logb 2) (vals q)
      = (groups.map (fun g => entropyOf (Real.logb 2) t g)).sum := by
  have hrows : ∀ g ∈ groups, entropyOf (Real.logb 2) t g
      = -(t.map (fun r => r.2 * Real.logb 2 (margAt t g (project g r.1)))).sum := by
    intro g _
    rw [entropyOf_rows]
    congr 2
    apply List.map_congr_left
    intro r _
    rw [fibreSum_eq_ite, margAt_eq_wtBy]; rfl
  rw [entropy_loglinear q hq hnd groups 0 (fun g x => Real.logb 2 (margAt t g x)) hlog,
    sum_loglinear_eq q t groups 0 (fun g x => Real.logb 2 (margAt t g x)) hmass hm,
    List.map_congr_left hrows, sum_map_neg, sum_comm]
  congr 2
  apply List.map_congr_left
  intro r _
  rw [zero_add, sum_map_mul_left]

end LogLinear

/-! ### Feasible tables, sub-marginals, a group covering all variables, the uniform table -/

section Feasible
open Dit.Lemmas.Diverge Dit.Lemmas.InfoReal
variable {σ : Type} [DecidableEq σ]

/-- `p` is *feasible* for the constraints `(t, groups)` on `space`: a non-negative table on
`space` with the total mass of `t` and the marginals of `t` on every group of `groups`. -/
structure Feasible (t : Tab (List σ) ℝ) (space : List (List σ)) (groups : List (List Nat))
    (p : Tab (List σ) ℝ) : Prop where
  keys_eq : keys p = space
  nonneg : ∀ r ∈ p, 0 ≤ r.2
  mass_eq : mass p = mass t
  marg : ∀ g ∈ groups, ∀ x, margAt p g x = margAt t g x

/-- The source table is feasible for its own constraints. -/
theorem Feasible.self (t : Tab (List σ) ℝ) (space : List (List σ)) (groups : List (List Nat))
    (hk : keys t = space) (hnn : ∀ r ∈ t, 0 ≤ r.2) : Feasible t space groups t :=
  ⟨hk, hnn, rfl, fun _ _ _ => rfl⟩

/-- Two tables with duplicate-free keys and the same lookup function give every event the same
weight (stored zeros and the stored order are irrelevant). -/
theorem wtBy_eq_of_lookupD_eq {κ : Type} [DecidableEq κ] (T1 T2 : Tab κ ℝ)
    (h1 : (keys T1).Nodup) (h2 : (keys T2).Nodup) (h : ∀ x, lookupD 0 T1 x = lookupD 0 T2 x)
    (P : κ → Prop) [DecidablePred P] : wtBy P T1 = wtBy P T2 := by
  have hl := nodup_dedup (keys T1 ++ keys T2)
  have e1 := sum_map_wtBy_fibre hl (fun k : κ => k) P T1
    (fun k hk => mem_dedup.mpr (List.mem_append_left _ hk))
  have e2 := sum_map_wtBy_fibre hl (fun k : κ => k) P T2
    (fun k hk => mem_dedup.mpr (List.mem_append_right _ hk))
  rw [← e1, ← e2]
  congr 1
  apply List.map_congr_left
  intro x _
  rw [← lookupD_eq_wtBy h1, ← lookupD_eq_wtBy h2, h x]

/-- Every index list contained in `g'` is read off `g'` at suitable positions. -/
theorem exists_positions (g g' : List Nat) (h : ∀ i ∈ g, i ∈ g') :
    ∃ J : List Nat, g = J.filterMap (fun j => g'[j]?) := by
  induction g with
  | nil => exact ⟨[], rfl⟩
  | cons i g ih =>
    obtain ⟨J, hJ⟩ := ih (fun k hk => h k (List.mem_cons_of_mem _ hk))
    obtain ⟨j, hj⟩ := List.mem_iff_getElem?.mp (h i (by simp))
    exact ⟨j :: J, by rw [List.filterMap_cons, hj, ← hJ]⟩

/-- **Marginals of sub-groups.** If two tables have the same `g'`-marginal, every index of `g`
occurs in `g'`, and the indices of `g'` are valid for all stored outcomes, then the tables have
the same `g`-marginal. -/
theorem margAt_of_submarginal (p q : Tab (List σ) ℝ) (g g' : List Nat)
    (hsub : ∀ i ∈ g, i ∈ g')
    (hvp : ∀ o ∈ keys p, ∀ i ∈ g', i < o.length) (hvq : ∀ o ∈ keys q, ∀ i ∈ g', i < o.length)
    (hm : ∀ x, margAt p g' x = margAt q g' x) (x : List σ) :
    margAt p g x = margAt q g x := by
  obtain ⟨J, hJ⟩ := exists_positions g g' hsub
  have key : ∀ T : Tab (List σ) ℝ, (∀ o ∈ keys T, ∀ i ∈ g', i < o.length) →
      margAt T g x = wtBy (fun y => project J y = x) (pushforward (project g') T) := by
    intro T hv
    rw [margAt_eq_wtBy, wtBy_pushforward]
    apply wtBy_congr
    intro o ho
    rw [project_project (hv o ho) J, ← hJ]
  rw [key p hvp, key q hvq]
  exact wtBy_eq_of_lookupD_eq _ _ (keys_pushforward_nodup _ _) (keys_pushforward_nodup _ _) hm _

/-- Feasibility for finer constraints implies feasibility for coarser ones. -/
theorem Feasible.coarsen {t : Tab (List σ) ℝ} {space : List (List σ)}
    {groups₁ groups₂ : List (List Nat)} {p : Tab (List σ) ℝ} (ht : keys t = space)
    (hcoarse : ∀ g ∈ groups₁, ∃ g' ∈ groups₂, ∀ i ∈ g, i ∈ g')
    (hvalid : ∀ o ∈ space, ∀ g' ∈ groups₂, ∀ i ∈ g', i < o.length)
    (h : Feasible t space groups₂ p) : Feasible t space groups₁ p := by
  refine ⟨h.keys_eq, h.nonneg, h.mass_eq, ?_⟩
  intro g hg x
  obtain ⟨g', hg', hsub⟩ := hcoarse g hg
  exact margAt_of_submarginal p t g g' hsub
    (fun o ho => hvalid o (h.keys_eq ▸ ho) g' hg') (fun o ho => hvalid o (ht ▸ ho) g' hg')
    (h.marg g' hg') x

/-- If `g` covers all variables (`project g o = o` on the stored outcomes) the `g`-marginal is
the table itself. -/
theorem lookupD_eq_margAt_of_full (T : Tab (List σ) ℝ) (hnd : (keys T).Nodup) (g : List Nat)
    (hfull : ∀ o ∈ keys T, project g o = o) (o : List σ) : lookupD 0 T o = margAt T g o := by
  rw [lookupD_eq_wtBy hnd, margAt_eq_wtBy]
  apply wtBy_congr
  intro k hk
  rw [hfull k hk]

/-- Values of the uniform table. -/
theorem lookupD_uniformOn (space : List (List σ)) (o : List σ) (ho : o ∈ space) :
    lookupD 0 (uniformOn (fun n : Nat => (n : ℝ)) space) o = 1 / (space.length : ℝ) := by
  unfold lookupD uniformOn
  rw [lookup?_map_graph]; simp [ho]

theorem keys_uniformOn (space : List (List σ)) :
    keys (uniformOn (fun n : Nat => (n : ℝ)) space) = space := keys_map_graph _ _

theorem uniformOn_nonneg (space : List (List σ)) :
    ∀ r ∈ uniformOn (fun n : Nat => (n : ℝ)) space, 0 ≤ r.2 := by
  intro r hr
  obtain ⟨o, _, rfl⟩ := List.mem_map.mp hr
  simp only
  positivity

theorem mass_uniformOn (space : List (List σ)) (hne : space ≠ []) :
    mass (uniformOn (fun n : Nat => (n : ℝ)) space) = 1 := by
  rw [mass_eq_sum]
  unfold uniformOn vals
  rw [List.map_map]
  have : ((fun r : List σ × ℝ => r.2) ∘ fun o => (o, 1 / (space.length : ℝ)))
      = fun _ => 1 / (space.length : ℝ) := rfl
  rw [this, List.map_const', List.sum_replicate, nsmul_eq_mul]
  have : (space.length : ℝ) ≠ 0 := by
    have := List.length_pos_iff.mpr hne
    positivity
  field_simp

/-- The uniform table has entropy `log₂ N`. -/
theorem entropy_uniformOn (space : List (List σ)) :
    entropyVals (Real.logb 2) (vals (uniformOn (fun n : Nat => (n : ℝ)) space))
      = Real.logb 2 (space.length : ℝ) := by
  rw [entropyVals_eq_sum]
  simp only [uniformOn, vals, List.map_map, Function.comp_def, List.map_const',
    List.map_replicate, List.sum_replicate, nsmul_eq_mul]
  by_cases h0 : (space.length : ℝ) = 0
  · simp [h0]
  · rw [one_div, Real.logb_inv]
    field_simp

end Feasible

/-! ### An IPF step does not increase `D(t‖q)` -/

section StepKL
open Dit.Lemmas.Diverge Dit.Lemmas.InfoReal
variable {σ : Type} [DecidableEq σ]

/-- Value of the table after one IPF step. -/
theorem lookupD_ipfStep (t q : Tab (List σ) ℝ) {space : List (List σ)} (hq : keys q = space)
    (hnd : space.Nodup) (g : List Nat) (o : List σ) (ho : o ∈ space) :
    lookupD 0 (ipfStep t q g) o
      = lookupD 0 q o * (margAt t g (project g o) / margAt q g (project g o)) := by
  have hm := mem_of_mem_space hq hnd ho
  have hm' : (o, lookupD 0 q o * (margAt t g (project g o) / margAt q g (project g o)))
      ∈ ipfStep t q g := by
    rw [ipfStep_eq]
    exact List.mem_map.mpr ⟨_, hm, rfl⟩
  have hnd' : (keys (ipfStep t q g)).Nodup := by rw [keys_ipfStep, hq]; exact hnd
  exact lookupD_of_mem hnd' hm'

/-- An IPF step keeps the support of the target inside that of the iterate. -/
theorem supp_ipfStep (t q : Tab (List σ) ℝ) {space : List (List σ)} (hq : keys q = space)
    (hnd : space.Nodup) (htn : ∀ r ∈ t, 0 ≤ r.2) (hqn : ∀ r ∈ q, 0 ≤ r.2) (g : List Nat)
    (hsupp : ∀ o ∈ space, lookupD 0 q o = 0 → lookupD 0 t o = 0) :
    ∀ o ∈ space, lookupD 0 (ipfStep t q g) o = 0 → lookupD 0 t o = 0 := by
  intro o ho h0
  rw [lookupD_ipfStep t q hq hnd g o ho] at h0
  rcases mul_eq_zero.mp h0 with h | h
  · exact hsupp o ho h
  · rcases div_eq_zero_iff.mp h with h | h
    · exact lookupD_eq_zero_of_margAt_eq_zero t htn g o h
    · exact hsupp o ho (lookupD_eq_zero_of_margAt_eq_zero q hqn g o h)

/-- The marginal of `q` vanishes only where that of `t` does, when `supp t ⊆ supp q`. -/
theorem margAt_absCont (t q : Tab (List σ) ℝ) {space : List (List σ)} (ht : keys t = space)
    (hnd : space.Nodup) (hqn : ∀ r ∈ q, 0 ≤ r.2) (g : List Nat)
    (hsupp : ∀ o ∈ space, lookupD 0 q o = 0 → lookupD 0 t o = 0) (x : List σ)
    (h : margAt q g x = 0) : margAt t g x = 0 := by
  rw [margAt_eq_wtBy]
  unfold wtBy
  apply List.sum_eq_zero
  intro z hz
  obtain ⟨r, hr, rfl⟩ := List.mem_map.mp hz
  by_cases hp : project g r.1 = x
  · rw [if_pos hp]
    have hmem : r.1 ∈ space := ht ▸ mem_keys_of_mem hr
    rw [← lookupD_of_mem (ht ▸ hnd) hr]
    exact hsupp r.1 hmem (lookupD_eq_zero_of_margAt_eq_zero q hqn g r.1 (by rw [hp]; exact h))
  · rw [if_neg hp]

/-- **Decrease of the divergence in one IPF step**: `D(t‖q) − D(t‖q') = D(t_g‖q_g)`, the
divergence between the `g`-marginals (listed over the distinct projections of the space). -/
theorem klSum_sub_klSum_ipfStep (t q : Tab (List σ) ℝ) {space : List (List σ)}
    (ht : keys t = space) (hq : keys q = space) (hnd : space.Nodup)
    (htn : ∀ r ∈ t, 0 ≤ r.2) (hqn : ∀ r ∈ q, 0 ≤ r.2) (g : List Nat)
    (hsupp : ∀ o ∈ space, lookupD 0 q o = 0 → lookupD 0 t o = 0) :
    klSum (alignPair t q) - klSum (alignPair t (ipfStep t q g))
      = klSum ((dedup (space.map (project g))).map (fun x => (margAt t g x, margAt q g x))) := by
  have hl := nodup_dedup (space.map (project g))
  have e := sum_rows_margAt t g (fun x => Real.logb 2 (margAt t g x / margAt q g x)) hl (by
    intro o ho; rw [mem_dedup]; exact List.mem_map.mpr ⟨o, ht ▸ ho, rfl⟩)
  unfold klSum alignPair
  rw [List.map_map, List.map_map, List.map_map, ← sum_map_sub]
  refine Eq.trans ?_ e
  congr 1
  apply List.map_congr_left
  intro r hr
  simp only [Function.comp_apply]
  by_cases h0 : r.2 = 0
  · simp [h0]
  · have hmem : r.1 ∈ space := ht ▸ mem_keys_of_mem hr
    have hT : lookupD 0 t r.1 = r.2 := lookupD_of_mem (ht ▸ hnd) hr
    have hTpos : 0 < r.2 := lt_of_le_of_ne (htn r hr) (Ne.symm h0)
    have hQ0 : lookupD 0 q r.1 ≠ 0 := fun e' => h0 (by rw [← hT]; exact hsupp r.1 hmem e')
    have hQpos : 0 < lookupD 0 q r.1 := lt_of_le_of_ne (lookupD_nonneg hqn _) (Ne.symm hQ0)
    have hmq : 0 < margAt q g (project g r.1) :=
      lt_of_lt_of_le hQpos (le_margAt q hqn g _ (mem_of_mem_space hq hnd hmem))
    have hmt : 0 < margAt t g (project g r.1) := lt_of_lt_of_le hTpos (le_margAt t htn g r hr)
    rw [lookupD_ipfStep t q hq hnd g r.1 hmem]
    have e2 : r.2 / (lookupD 0 q r.1 * (margAt t g (project g r.1) / margAt q g (project g r.1)))
        = (r.2 / lookupD 0 q r.1) / (margAt t g (project g r.1) / margAt q g (project g r.1)) := by
      field_simp
    rw [e2, Real.logb_div (div_ne_zero h0 hQ0) (div_ne_zero hmt.ne' hmq.ne')]
    ring

/-- **An IPF step does not increase `D(t‖q)`**, for non-negative tables on the same space with
`supp t ⊆ supp q` and `mass q ≤ mass t`. -/
theorem klSum_ipfStep_le (t q : Tab (List σ) ℝ) {space : List (List σ)}
    (ht : keys t = space) (hq : keys q = space) (hnd : space.Nodup)
    (htn : ∀ r ∈ t, 0 ≤ r.2) (hqn : ∀ r ∈ q, 0 ≤ r.2) (g : List Nat)
    (hsupp : ∀ o ∈ space, lookupD 0 q o = 0 → lookupD 0 t o = 0) (hmass : mass q ≤ mass t) :
    klSum (alignPair t (ipfStep t q g)) ≤ klSum (alignPair t q) := by
  have hl := nodup_dedup (space.map (project g))
  have hid := klSum_sub_klSum_ipfStep t q ht hq hnd htn hqn g hsupp
  have hnn := klSum_nonneg ((dedup (space.map (project g))).map
      (fun x => (margAt t g x, margAt q g x)))
    (by
      intro r hr
      obtain ⟨x, _, rfl⟩ := List.mem_map.mp hr
      exact ⟨margAt_nonneg t htn g x, margAt_nonneg q hqn g x⟩)
    (by
      rw [absCont_iff]
      intro r hr h2
      obtain ⟨x, _, rfl⟩ := List.mem_map.mp hr
      exact margAt_absCont t q ht hnd hqn g hsupp x h2)
    (by
      rw [List.map_map, List.map_map]
      have e1 := sum_margAt t g hl (by
        intro o ho; rw [mem_dedup]; exact List.mem_map.mpr ⟨o, ht ▸ ho, rfl⟩)
      have e2 := sum_margAt q g hl (by
        intro o ho; rw [mem_dedup]; exact List.mem_map.mpr ⟨o, hq ▸ ho, rfl⟩)
      have f1 : (Prod.fst ∘ fun x => (margAt t g x, margAt q g x)) = fun x => margAt t g x := rfl
      have f2 : (Prod.snd ∘ fun x => (margAt t g x, margAt q g x)) = fun x => margAt q g x := rfl
      rw [f1, f2, e1, e2]; exact hmass)
  linarith

end StepKL

/-! ### Fixed points and invariants of the IPF iteration -/

section Fixed
open Dit.Lemmas.Diverge Dit.Lemmas.InfoReal
variable {σ : Type} [DecidableEq σ]

/-- A non-negative table whose `g`-marginal already equals the target's is left unchanged by
the IPF step for `g`. -/
theorem ipfStep_eq_self (t q : Tab (List σ) ℝ) (hqn : ∀ r ∈ q, 0 ≤ r.2) (g : List Nat)
    (hm : ∀ x, margAt q g x = margAt t g x) : ipfStep t q g = q := by
  rw [ipfStep_eq]
  conv_rhs => rw [← List.map_id q]
  apply List.map_congr_left
  intro r hr
  simp only [id]
  by_cases h0 : margAt q g (project g r.1) = 0
  · have h1 := le_margAt q hqn g r hr
    have h2 := hqn r hr
    have : r.2 = 0 := by linarith
    rw [h0, div_zero, mul_zero]
    exact Prod.ext rfl this.symm
  · rw [← hm, div_self h0, mul_one]

theorem foldl_ipfStep_eq_self (t q : Tab (List σ) ℝ) (hqn : ∀ r ∈ q, 0 ≤ r.2)
    (gs : List (List Nat)) (hm : ∀ g ∈ gs, ∀ x, margAt q g x = margAt t g x) :
    gs.foldl (fun q' g => ipfStep t q' g) q = q := by
  induction gs with
  | nil => rfl
  | cons g gs ih =>
    rw [List.foldl_cons, ipfStep_eq_self t q hqn g (hm g (by simp))]
    exact ih (fun g' hg' => hm g' (List.mem_cons_of_mem _ hg'))

/-- A feasible table is a fixed point of the IPF iteration. -/
theorem ipf_eq_self (t q : Tab (List σ) ℝ) (hqn : ∀ r ∈ q, 0 ≤ r.2) (groups : List (List Nat))
    (hm : ∀ g ∈ groups, ∀ x, margAt q g x = margAt t g x) (n : Nat) : ipf t groups q n = q := by
  induction n with
  | zero => rfl
  | succ n ih =>
    show ipfSweep t (ipf t groups q n) groups = q
    rw [ih]; exact foldl_ipfStep_eq_self t q hqn groups hm

theorem foldl_ipfStep_supp (t : Tab (List σ) ℝ) {space : List (List σ)} (hnd : space.Nodup)
    (htn : ∀ r ∈ t, 0 ≤ r.2) (gs : List (List Nat)) (q : Tab (List σ) ℝ) (hq : keys q = space)
    (hqn : ∀ r ∈ q, 0 ≤ r.2)
    (hsupp : ∀ o ∈ space, lookupD 0 q o = 0 → lookupD 0 t o = 0) :
    ∀ o ∈ space, lookupD 0 (gs.foldl (fun q' g => ipfStep t q' g) q) o = 0
      → lookupD 0 t o = 0 := by
  induction gs generalizing q with
  | nil => exact hsupp
  | cons g gs ih =>
    rw [List.foldl_cons]
    exact ih _ (by rw [keys_ipfStep, hq]) (ipfStep_nonneg t q g htn hqn)
      (supp_ipfStep t q hq hnd htn hqn g hsupp)

/-- Every IPF iterate keeps the support of the target inside its own. -/
theorem ipf_supp (t q0 : Tab (List σ) ℝ) {space : List (List σ)} (hq : keys q0 = space)
    (hnd : space.Nodup) (htn : ∀ r ∈ t, 0 ≤ r.2) (hqn : ∀ r ∈ q0, 0 ≤ r.2)
    (groups : List (List Nat))
    (hsupp : ∀ o ∈ space, lookupD 0 q0 o = 0 → lookupD 0 t o = 0) (n : Nat) :
    ∀ o ∈ space, lookupD 0 (ipf t groups q0 n) o = 0 → lookupD 0 t o = 0 := by
  induction n with
  | zero => exact hsupp
  | succ n ih =>
    exact foldl_ipfStep_supp t hnd htn groups _ (by rw [keys_ipf, hq])
      (ipf_nonneg t q0 groups htn hqn n) ih

end Fixed

/-! ### The optimality certificate -/

section Certificate
open Dit.Lemmas.Diverge Dit.Lemmas.InfoReal
variable {σ : Type} [DecidableEq σ]

/-- The identity on all variables: projecting an outcome on `0, …, n-1` returns it. -/
theorem project_range_length (o : List σ) : project (List.range o.length) o = o := by
  induction o with
  | nil => rfl
  | cons a o ih =>
    rw [List.length_cons, List.range_succ_eq_map]
    unfold project at ih ⊢
    rw [List.filterMap_cons, List.filterMap_map]
    simp only [List.getElem?_cons_zero]
    congr 1

/-- **Certificate of optimality.** A table `q` that is log-linear on its support over `groups`
has at least the entropy of every non-negative table `p` on the same space with the same mass,
the same marginals on `groups` and `supp p ⊆ supp q`; equality holds only for `p = q`. -/
theorem entropy_le_of_loglinear (p q : Tab (List σ) ℝ) {space : List (List σ)}
    (hp : keys p = space) (hq : keys q = space) (hnd : space.Nodup)
    (hpn : ∀ r ∈ p, 0 ≤ r.2) (hqn : ∀ r ∈ q, 0 ≤ r.2)
    (groups : List (List Nat)) (c : ℝ) (ψ : List Nat → List σ → ℝ)
    (hmass : mass p = mass q)
    (hm : ∀ g ∈ groups, ∀ x, margAt p g x = margAt q g x)
    (hlog : ∀ o ∈ space, lookupD 0 q o ≠ 0 →
      Real.logb 2 (lookupD 0 q o) = c + (groups.map (fun g => ψ g (project g o))).sum)
    (hsupp : ∀ o ∈ space, lookupD 0 q o = 0 → lookupD 0 p o = 0) :
    entropyVals (Real.logb 2) (vals p) ≤ entropyVals (Real.logb 2) (vals q)
      ∧ (entropyVals (Real.logb 2) (vals p) = entropyVals (Real.logb 2) (vals q) ↔ p = q) := by
  have hid := klSum_eq_entropy_sub p q hp hq hnd groups c ψ hmass hm hlog hsupp
  have hac := absCont_alignPair p q hp hnd hsupp
  have hnn : ∀ r ∈ alignPair p q, 0 ≤ r.1 ∧ 0 ≤ r.2 := by
    rw [alignPair_eq p q hp hnd]
    intro r hr
    obtain ⟨o, _, rfl⟩ := List.mem_map.mp hr
    exact ⟨lookupD_nonneg hpn o, lookupD_nonneg hqn o⟩
  have hs : ((alignPair p q).map Prod.fst).sum = ((alignPair p q).map Prod.snd).sum := by
    rw [alignPair_fst, alignPair_snd p q hp hq hnd, ← mass_eq_sum, ← mass_eq_sum, hmass]
  have h0 := klSum_nonneg (alignPair p q) hnn hac hs.ge
  have hz := klSum_eq_zero_iff (alignPair p q) hnn hac hs
  refine ⟨by linarith, ?_⟩
  constructor
  · intro he
    have : klSum (alignPair p q) = 0 := by rw [hid, he, sub_self]
    have hall := hz.mp this
    apply eq_of_lookupD_eq hp hq hnd
    intro o ho
    rw [alignPair_eq p q hp hnd] at hall
    exact hall _ (List.mem_map.mpr ⟨o, ho, rfl⟩)
  · intro he; rw [he]

end Certificate

/-! ### A concrete instance (used by the non-vacuity examples of Props/C14.lean) -/

section Example

/-- Two binary alphabets. -/
def exAlph : List (List Nat) := [[0, 1], [0, 1]]

/-- Two perfectly correlated fair bits, stored densely on the Cartesian space. -/
noncomputable def exCorr : Tab (List Nat) ℝ :=
  [([0, 0], 1 / 2), ([0, 1], 0), ([1, 0], 0), ([1, 1], 1 / 2)]

theorem exAlph_nodup : ∀ a ∈ exAlph, a.Nodup := by decide

theorem exCorr_keys : keys exCorr = cartesian exAlph := rfl

theorem exCorr_nonneg : ∀ r ∈ exCorr, 0 ≤ r.2 := by
  intro r hr
  simp only [exCorr, List.mem_cons, List.not_mem_nil, or_false] at hr
  rcases hr with rfl | rfl | rfl | rfl <;> norm_num

theorem exCorr_mass : mass exCorr = 1 := by
  rw [mass_eq_sum]
  simp only [exCorr, vals, List.map_cons, List.map_nil, List.sum_cons, List.sum_nil]
  norm_num

theorem exCorr_lookup : lookupD 0 exCorr [0, 1] = 0 := by
  simp [exCorr, lookupD, lookup?]

theorem exCorr_marg0 : margAt exCorr [0] [0] = 1 / 2 := by
  rw [margAt_eq_wtBy]
  simp [wtBy, exCorr, project]

theorem exCorr_marg1 : margAt exCorr [1] [1] = 1 / 2 := by
  rw [margAt_eq_wtBy]
  simp [wtBy, exCorr, project]

/-- The product of the marginals differs from the correlated table. -/
theorem exCorr_prod_lookup :
    lookupD 0 (prodMarg exCorr (singletons 2) (cartesian exAlph)) [0, 1] = 1 / 4 := by
  rw [lookupD_prodMarg _ _ _ _ (by decide)]
  simp only [singletons, List.range_succ_eq_map, List.range_zero, List.map_cons, List.map_nil,
    List.prod_cons, List.prod_nil]
  have e0 : project [0] [0, 1] = [0] := rfl
  have e1 : project [Nat.succ 0] [0, 1] = [1] := rfl
  rw [e0, e1, exCorr_marg0, exCorr_marg1]
  norm_num

end Example

section ProdForm
variable {σ : Type} [DecidableEq σ]

theorem singletons_nodup (n : Nat) : (singletons n).Nodup :=
  List.nodup_range.map (fun a b e => by injection e)

/-- The product of the marginals on duplicate-free groups has product form (constant 1, factors
the marginals). -/
theorem prodMarg_productForm (t : Tab (List σ) ℝ) (groups : List (List Nat))
    (hnd : groups.Nodup) (space : List (List σ)) :
    ProductForm groups (prodMarg t groups space) := by
  refine ⟨1, fun g x => margAt t g x, ?_⟩
  intro r hr
  obtain ⟨o, _, rfl⟩ := List.mem_map.mp hr
  rw [dedup_eq_self.mpr hnd, one_mul]

/-- Feasibility only depends on the set of groups. -/
theorem Feasible.dedup {t : Tab (List σ) ℝ} {space : List (List σ)} {groups : List (List Nat)}
    {p : Tab (List σ) ℝ} (h : Feasible t space groups p) :
    Feasible t space (Dit.dedup groups) p :=
  ⟨h.keys_eq, h.nonneg, h.mass_eq, fun g hg => h.marg g (mem_dedup.mp hg)⟩

end ProdForm

end Dit.Lemmas.Maxent
