/-
Helper lemmas for C14 (maximum-entropy distributions with prescribed marginals,
`Core/Maxent.lean`) over `ℝ` with `log := Real.logb 2`.

* `margAt` as an event weight; tables on a duplicate-free sample space as graphs of functions;
* the algebra of one IPF step (`ipfStep`): keys, non-negativity, fitted marginal, total mass,
  product form, Kullback–Leibler monotonicity;
* the disintegration lemma `Σ_o f(o) h(o_g) = Σ_x P_f(g = x) h(x)`;
* the Pythagorean identity `H(q) − H(p) = D(p‖q)` for a log-linear `q` and a `p` with the same
  marginals;
* sums over Cartesian products (product of one-variable marginals);
* marginals of sub-groups.
Property theorems are in Props/C14.lean.
-/
import DitModel.Core.Maxent
import DitModel.Core.Diverge
import DitModel.Lemmas.Table
import DitModel.Lemmas.InfoReal
import DitModel.Lemmas.Diverge
import Mathlib.Analysis.SpecialFunctions.Log.Base
import Mathlib.Algebra.BigOperators.Group.List.Basic
import Mathlib.Tactic.Linarith
import Mathlib.Tactic.Ring
import Mathlib.Tactic.FieldSimp
import Mathlib.Tactic.Positivity
import Mathlib.Tactic.NormNum

set_option linter.unusedSectionVars false

namespace Dit.Lemmas.Maxent
open Dit Dit.Lemmas.Table

/-! ### Marginals as event weights -/

section Marg
variable {σ : Type} [DecidableEq σ]

/-- The `g`-marginal at `x` is the weight of the event `{o | project g o = x}`. -/
theorem margAt_eq_wtBy (t : Tab (List σ) ℝ) (g : List Nat) (x : List σ) :
    margAt t g x = wtBy (fun o => project g o = x) t :=
  lookupD_pushforward (project g) t x

theorem wtBy_nonneg {κ : Type} (p : κ → Prop) [DecidablePred p] (t : Tab κ ℝ)
    (h : ∀ r ∈ t, 0 ≤ r.2) : 0 ≤ wtBy p t := by
  unfold wtBy
  apply Dit.Lemmas.Diverge.sum_map_nonneg
  intro r hr
  by_cases hp : p r.1
  · simpa [hp] using h r hr
  · simp [hp]

theorem margAt_nonneg (t : Tab (List σ) ℝ) (h : ∀ r ∈ t, 0 ≤ r.2) (g : List Nat) (x : List σ) :
    0 ≤ margAt t g x := by
  rw [margAt_eq_wtBy]; exact wtBy_nonneg _ t h

/-- A marginal vanishes at every `x` that is not the projection of a stored outcome. -/
theorem margAt_eq_zero_of_not_image (t : Tab (List σ) ℝ) (g : List Nat) (x : List σ)
    (h : ∀ o ∈ keys t, project g o ≠ x) : margAt t g x = 0 := by
  rw [margAt_eq_wtBy]; exact wtBy_eq_zero _ t h

/-- A row of a non-negative table is at most the marginal at its projection. -/
theorem le_margAt (t : Tab (List σ) ℝ) (h : ∀ r ∈ t, 0 ≤ r.2) (g : List Nat) (r : List σ × ℝ)
    (hr : r ∈ t) : r.2 ≤ margAt t g (project g r.1) := by
  rw [margAt_eq_wtBy]
  unfold wtBy
  have := Dit.Lemmas.Diverge.single_le_sum_map t
    (fun r' => if project g r'.1 = project g r.1 then r'.2 else 0)
    (by
      intro r' hr'
      by_cases hp : project g r'.1 = project g r.1
      · simpa [hp] using h r' hr'
      · simp [hp]) r hr
  simpa using this

/-- Event weight of a table whose values are computed row by row. -/
theorem wtBy_map {κ : Type} (p : κ → Prop) [DecidablePred p] (q : Tab κ ℝ) (F : κ × ℝ → ℝ) :
    wtBy p (q.map (fun r => (r.1, F r))) = (q.map (fun r => if p r.1 then F r else 0)).sum := by
  simp [wtBy, Function.comp_def]

/-- Total mass as a sum of marginal values over any duplicate-free list containing the
projections of all stored outcomes. -/
theorem sum_margAt (t : Tab (List σ) ℝ) (g : List Nat) {l : List (List σ)} (hl : l.Nodup)
    (h : ∀ o ∈ keys t, project g o ∈ l) : (l.map (fun x => margAt t g x)).sum = mass t := by
  have := sum_map_wtBy_fibre hl (project g) (fun _ => True) t h
  simp only [if_true, wtBy_true] at this
  rw [← this]
  congr 1
  exact List.map_congr_left (fun x _ => margAt_eq_wtBy t g x)

end Marg

section Step
variable {σ : Type} [DecidableEq σ]

/-- Over `ℝ` the zero guard of `ipfStep` is redundant (`x / 0 = 0`). -/
theorem ipfStep_eq (t q : Tab (List σ) ℝ) (g : List Nat) :
    ipfStep t q g = q.map (fun r =>
      (r.1, r.2 * (margAt t g (project g r.1) / margAt q g (project g r.1)))) := by
  unfold ipfStep
  apply List.map_congr_left
  intro r _
  by_cases h : margAt q g (project g r.1) = 0
  · simp [h]
  · simp [h, mul_div_assoc]

theorem keys_ipfStep (t q : Tab (List σ) ℝ) (g : List Nat) : keys (ipfStep t q g) = keys q := by
  simp [ipfStep, keys, Function.comp_def]

theorem ipfStep_nonneg (t q : Tab (List σ) ℝ) (g : List Nat) (ht : ∀ r ∈ t, 0 ≤ r.2)
    (hq : ∀ r ∈ q, 0 ≤ r.2) : ∀ r ∈ ipfStep t q g, 0 ≤ r.2 := by
  rw [ipfStep_eq]
  intro r hr
  obtain ⟨r', hr', rfl⟩ := List.mem_map.mp hr
  exact mul_nonneg (hq r' hr') (div_nonneg (margAt_nonneg t ht g _) (margAt_nonneg q hq g _))

theorem margAt_ipfStep_eq (t q : Tab (List σ) ℝ) (g : List Nat) (x : List σ) :
    margAt (ipfStep t q g) g x = margAt q g x * (margAt t g x / margAt q g x) := by
  calc margAt (ipfStep t q g) g x
      = (q.map (fun r => (if project g r.1 = x then r.2 else 0)
            * (margAt t g x / margAt q g x))).sum := by
        rw [margAt_eq_wtBy, ipfStep_eq, wtBy_map]
        congr 1
        apply List.map_congr_left
        intro r _
        by_cases h : project g r.1 = x
        · subst h; simp
        · simp [h]
    _ = (q.map (fun r => if project g r.1 = x then r.2 else 0)).sum
          * (margAt t g x / margAt q g x) := Dit.Lemmas.Diverge.sum_map_mul_right _ _ _
    _ = margAt q g x * (margAt t g x / margAt q g x) := by
        rw [margAt_eq_wtBy q g x]; rfl

theorem margAt_ipfStep (t q : Tab (List σ) ℝ) (g : List Nat)
    (h : ∀ x, margAt q g x = 0 → margAt t g x = 0) (x : List σ) :
    margAt (ipfStep t q g) g x = margAt t g x := by
  rw [margAt_ipfStep_eq]
  by_cases h0 : margAt q g x = 0
  · rw [h0, h x h0]; simp
  · field_simp

theorem mass_ipfStep (t q : Tab (List σ) ℝ) (g : List Nat)
    (h : ∀ x, margAt q g x = 0 → margAt t g x = 0) : mass (ipfStep t q g) = mass t := by
  have hl := nodup_dedup ((keys t ++ keys q).map (project g))
  rw [← sum_margAt (ipfStep t q g) g hl, ← sum_margAt t g hl]
  · congr 1
    exact List.map_congr_left (fun x _ => margAt_ipfStep t q g h x)
  · intro o ho; rw [mem_dedup]; exact List.mem_map.mpr ⟨o, List.mem_append_left _ ho, rfl⟩
  · intro o ho; rw [mem_dedup, keys_ipfStep] at *
    exact List.mem_map.mpr ⟨o, List.mem_append_right _ ho, rfl⟩
end Step

/-! ### Product form -/

section Product
variable {σ : Type} [DecidableEq σ]

/-- `q` has *product form* over `groups`: every stored value is a constant times a product of
factors, one for each distinct group, each factor depending on the outcome only through its
projection on that group: `q(o) = c · Π_g φ_g(o_g)`. -/
def ProductForm (groups : List (List Nat)) (q : Tab (List σ) ℝ) : Prop :=
  ∃ (c : ℝ) (φ : List Nat → List σ → ℝ), ∀ r ∈ q,
    r.2 = c * ((dedup groups).map (fun g => φ g (project g r.1))).prod

/-- Changing one factor of a product over a duplicate-free index list. -/
theorem prod_map_update {ι : Type} (l : List ι) (hl : l.Nodup) (g : ι) (hg : g ∈ l)
    (A B : ι → ℝ) (c : ℝ) (hne : ∀ h ∈ l, h ≠ g → B h = A h) (hgc : B g = A g * c) :
    (l.map B).prod = (l.map A).prod * c := by
  induction l with
  | nil => simp at hg
  | cons y l ih =>
    rw [List.nodup_cons] at hl
    rw [List.map_cons, List.prod_cons, List.map_cons, List.prod_cons]
    by_cases hy : y = g
    · subst hy
      have : l.map B = l.map A :=
        List.map_congr_left (fun h hh => hne h (List.mem_cons_of_mem _ hh)
          (fun e => hl.1 (e ▸ hh)))
      rw [this, hgc]; ring
    · have hg' : g ∈ l := by
        rcases List.mem_cons.mp hg with e | e
        · exact absurd e.symm hy
        · exact e
      rw [hne y (by simp) hy,
        ih hl.2 hg' (fun h hh => hne h (List.mem_cons_of_mem _ hh))]
      ring

/-- **An IPF step keeps the product form**: the factor of the fitted group `g` is multiplied by
`P_t(o_g) / P_q(o_g)`, all other factors and the constant are unchanged. -/
theorem ipfStep_productForm (t q : Tab (List σ) ℝ) (groups : List (List Nat)) (g : List Nat)
    (hg : g ∈ groups) (h : ProductForm groups q) : ProductForm groups (ipfStep t q g) := by
  obtain ⟨c, φ, hφ⟩ := h
  refine ⟨c, fun g' x => if g' = g then φ g x * (margAt t g x / margAt q g x) else φ g' x, ?_⟩
  rw [ipfStep_eq]
  intro r hr
  obtain ⟨r', hr', rfl⟩ := List.mem_map.mp hr
  simp only
  rw [prod_map_update (dedup groups) (nodup_dedup groups) g (mem_dedup.mpr hg)
    (fun g' => φ g' (project g' r'.1)) _
    (margAt t g (project g r'.1) / margAt q g (project g r'.1))
    (fun h _ hne => by simp [hne]) (by simp), hφ r' hr']
  ring

/-- The uniform table has product form (all factors 1, constant `1/N`). -/
theorem uniformOn_productForm (groups : List (List Nat)) (space : List (List σ)) :
    ProductForm groups (uniformOn (fun n : Nat => (n : ℝ)) space) := by
  refine ⟨1 / (space.length : ℝ), fun _ _ => 1, ?_⟩
  intro r hr
  obtain ⟨o, _, rfl⟩ := List.mem_map.mp hr
  simp

theorem foldl_ipfStep_productForm (t : Tab (List σ) ℝ) (groups gs : List (List Nat))
    (hgs : ∀ g ∈ gs, g ∈ groups) (q : Tab (List σ) ℝ) (h : ProductForm groups q) :
    ProductForm groups (gs.foldl (fun q' g => ipfStep t q' g) q) := by
  induction gs generalizing q with
  | nil => exact h
  | cons g gs ih =>
    rw [List.foldl_cons]
    exact ih (fun g' hg' => hgs g' (List.mem_cons_of_mem _ hg')) _
      (ipfStep_productForm t q groups g (hgs g (by simp)) h)

theorem ipfSweep_productForm (t q : Tab (List σ) ℝ) (groups : List (List Nat))
    (h : ProductForm groups q) : ProductForm groups (ipfSweep t q groups) :=
  foldl_ipfStep_productForm t groups groups (fun _ hg => hg) q h

/-- Every IPF iterate started from a table of product form has product form. -/
theorem ipf_productForm (t q0 : Tab (List σ) ℝ) (groups : List (List Nat))
    (h : ProductForm groups q0) (n : Nat) : ProductForm groups (ipf t groups q0 n) := by
  induction n with
  | zero => exact h
  | succ n ih => exact ipfSweep_productForm t _ groups ih

end Product

section Iter
variable {σ : Type} [DecidableEq σ]

theorem keys_foldl_ipfStep (t : Tab (List σ) ℝ) (gs : List (List Nat)) (q : Tab (List σ) ℝ) :
    keys (gs.foldl (fun q' g => ipfStep t q' g) q) = keys q := by
  induction gs generalizing q with
  | nil => rfl
  | cons g gs ih => rw [List.foldl_cons, ih, keys_ipfStep]

theorem keys_ipfSweep (t q : Tab (List σ) ℝ) (groups : List (List Nat)) :
    keys (ipfSweep t q groups) = keys q := keys_foldl_ipfStep t groups q

theorem keys_ipf (t q0 : Tab (List σ) ℝ) (groups : List (List Nat)) (n : Nat) :
    keys (ipf t groups q0 n) = keys q0 := by
  induction n with
  | zero => rfl
  | succ n ih => exact (keys_ipfSweep t _ groups).trans ih

theorem foldl_ipfStep_nonneg (t : Tab (List σ) ℝ) (ht : ∀ r ∈ t, 0 ≤ r.2) (gs : List (List Nat))
    (q : Tab (List σ) ℝ) (hq : ∀ r ∈ q, 0 ≤ r.2) :
    ∀ r ∈ gs.foldl (fun q' g => ipfStep t q' g) q, 0 ≤ r.2 := by
  induction gs generalizing q with
  | nil => exact hq
  | cons g gs ih => rw [List.foldl_cons]; exact ih _ (ipfStep_nonneg t q g ht hq)

theorem ipf_nonneg (t q0 : Tab (List σ) ℝ) (groups : List (List Nat)) (ht : ∀ r ∈ t, 0 ≤ r.2)
    (hq : ∀ r ∈ q0, 0 ≤ r.2) (n : Nat) : ∀ r ∈ ipf t groups q0 n, 0 ≤ r.2 := by
  induction n with
  | zero => exact hq
  | succ n ih => exact foldl_ipfStep_nonneg t ht groups _ ih

end Iter

/-! ### Tables on a sample space as graphs of functions -/

section Graph
variable {κ : Type} [DecidableEq κ]

/-- A table whose keys are the duplicate-free list `space` is the graph of its lookup function
over `space`. -/
theorem eq_graph {t : Tab κ ℝ} {space : List κ} (hk : keys t = space) (hnd : space.Nodup) :
    t = space.map (fun o => (o, lookupD 0 t o)) := by
  subst hk
  unfold keys
  rw [List.map_map]
  conv_lhs => rw [← List.map_id t]
  apply List.map_congr_left
  intro r hr
  simp only [id, Function.comp_apply]
  rw [Dit.Lemmas.Diverge.lookupD_of_mem hnd hr]

theorem vals_eq_map {t : Tab κ ℝ} {space : List κ} (hk : keys t = space) (hnd : space.Nodup) :
    vals t = space.map (fun o => lookupD 0 t o) := by
  conv_lhs => rw [eq_graph hk hnd]
  simp [vals, Function.comp_def]

theorem lookupD_nonneg {t : Tab κ ℝ} (h : ∀ r ∈ t, 0 ≤ r.2) (o : κ) : 0 ≤ lookupD 0 t o := by
  unfold lookupD
  cases hl : lookup? t o with
  | none => simp
  | some v => exact h (o, v) (mem_of_lookup?_eq_some hl)

theorem mass_eq_sum_lookupD {t : Tab κ ℝ} {space : List κ} (hk : keys t = space)
    (hnd : space.Nodup) : mass t = (space.map (fun o => lookupD 0 t o)).sum := by
  rw [mass_eq_sum, vals_eq_map hk hnd]

/-- Two tables on the same duplicate-free space with the same lookup function are equal. -/
theorem eq_of_lookupD_eq {p q : Tab κ ℝ} {space : List κ} (hp : keys p = space)
    (hq : keys q = space) (hnd : space.Nodup) (h : ∀ o ∈ space, lookupD 0 p o = lookupD 0 q o) :
    p = q := by
  rw [eq_graph hp hnd, eq_graph hq hnd]
  exact List.map_congr_left (fun o ho => by rw [h o ho])

end Graph

end Dit.Lemmas.Maxent
