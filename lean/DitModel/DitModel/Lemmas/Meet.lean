/-
Helper lemmas for C16 (meet, join, minimal sufficient statistic): the partition computed by
`classesBy`, the join relation, the connected components computed by `component`, entropies of
pushforwards along equivalent / coarser maps, the `mss` relation. Property theorems are in
Props/C16.lean.
-/
import DitModel.Core.Meet
import DitModel.Lemmas.InfoReal
import DitModel.Lemmas.Constructors
import Mathlib.Logic.Relation
import Mathlib.Logic.Function.Iterate

set_option linter.unusedSectionVars false

namespace Dit.Lemmas.Meet
open Dit Dit.Lemmas.Table

/-! ## `classesBy`: the partition of `rows` into the classes of an equivalence relation -/

section Classes
variable {σ : Type} [DecidableEq σ]

/-- `rel` is an equivalence relation on the members of `rows`. -/
structure EquivOn (rel : List σ → List σ → Bool) (rows : List (List σ)) : Prop where
  refl : ∀ o ∈ rows, rel o o = true
  symm : ∀ o ∈ rows, ∀ o' ∈ rows, rel o o' = true → rel o' o = true
  trans : ∀ o ∈ rows, ∀ o' ∈ rows, ∀ o'' ∈ rows, rel o o' = true → rel o' o'' = true →
    rel o o'' = true

/-- Two classes share no member. -/
def Disj (c c' : List (List σ)) : Prop := ∀ o, o ∈ c → o ∉ c'

theorem classesBy_snoc (cf : List σ → List (List σ)) (l : List (List σ)) (o : List σ) :
    classesBy cf (l ++ [o])
      = if (classesBy cf l).any (fun c => c.contains o) then classesBy cf l
        else classesBy cf l ++ [cf o] := by
  simp [classesBy, List.foldl_append]

/-- The class function only matters on the rows. -/
theorem classesBy_congr {cf cf' : List σ → List (List σ)} {l : List (List σ)}
    (h : ∀ o ∈ l, cf o = cf' o) : classesBy cf l = classesBy cf' l := by
  induction l using List.reverseRecOn with
  | nil => rfl
  | append_singleton l o ih =>
    rw [classesBy_snoc, classesBy_snoc,
      ih (fun x hx => h x (List.mem_append_left _ hx)), h o (by simp)]

variable {rel : List σ → List σ → Bool} {rows : List (List σ)}

/-- Invariant of the fold of `classesBy` over a list `l` of rows: every class built so far is the
class of a processed row, every processed row is in a class, and the classes are disjoint. -/
theorem classesBy_inv (he : EquivOn rel rows) (l : List (List σ)) (hl : ∀ o ∈ l, o ∈ rows) :
    (∀ c ∈ classesBy (fun o => rows.filter (rel o)) l, ∃ o ∈ l, c = rows.filter (rel o))
    ∧ (∀ o ∈ l, ∃ c ∈ classesBy (fun o => rows.filter (rel o)) l, o ∈ c)
    ∧ (classesBy (fun o => rows.filter (rel o)) l).Pairwise Disj := by
  induction l using List.reverseRecOn with
  | nil => simp [classesBy]
  | append_singleton l o ih =>
    have hl' : ∀ x ∈ l, x ∈ rows := fun x hx => hl x (List.mem_append_left _ hx)
    have ho : o ∈ rows := hl o (by simp)
    obtain ⟨h1, h2, h3⟩ := ih hl'
    rw [classesBy_snoc]
    by_cases hc : (classesBy (fun o => rows.filter (rel o)) l).any (fun c => c.contains o) = true
    · rw [if_pos hc]
      refine ⟨?_, ?_, h3⟩
      · intro c hcm
        obtain ⟨x, hx, e⟩ := h1 c hcm
        exact ⟨x, List.mem_append_left _ hx, e⟩
      · intro x hx
        rcases List.mem_append.mp hx with hx | hx
        · exact h2 x hx
        · have : x = o := by simpa using hx
          subst this
          obtain ⟨c, hcm, hco⟩ := List.any_eq_true.mp hc
          exact ⟨c, hcm, by simpa using hco⟩
    · rw [if_neg hc]
      have hnot : ∀ c ∈ classesBy (fun o => rows.filter (rel o)) l, o ∉ c := by
        intro c hcm hoc
        exact hc (List.any_eq_true.mpr ⟨c, hcm, by simpa using hoc⟩)
      refine ⟨?_, ?_, ?_⟩
      · intro c hcm
        rcases List.mem_append.mp hcm with hcm | hcm
        · obtain ⟨x, hx, e⟩ := h1 c hcm
          exact ⟨x, List.mem_append_left _ hx, e⟩
        · have : c = rows.filter (rel o) := by simpa using hcm
          exact ⟨o, by simp, this⟩
      · intro x hx
        rcases List.mem_append.mp hx with hx | hx
        · obtain ⟨c, hcm, hxc⟩ := h2 x hx
          exact ⟨c, List.mem_append_left _ hcm, hxc⟩
        · have : x = o := by simpa using hx
          subst this
          exact ⟨rows.filter (rel x), by simp, List.mem_filter.mpr ⟨ho, he.refl x ho⟩⟩
      · rw [List.pairwise_append]
        refine ⟨h3, by simp, ?_⟩
        intro c hcm c' hc'
        have hc'e : c' = rows.filter (rel o) := by simpa using hc'
        subst hc'e
        intro x hxc hxo
        obtain ⟨y, hy, e⟩ := h1 c hcm
        subst e
        obtain ⟨hxr, hyx⟩ := List.mem_filter.mp hxc
        obtain ⟨_, hox⟩ := List.mem_filter.mp hxo
        have hyr := hl' y hy
        have hxo' := he.symm o ho x hxr hox
        have hyo := he.trans y hyr x hxr o ho hyx hxo'
        exact hnot _ hcm (List.mem_filter.mpr ⟨ho, hyo⟩)

/-- The classes are classes of rows. -/
theorem class_eq_filter (he : EquivOn rel rows) {c : List (List σ)}
    (hc : c ∈ classesBy (fun o => rows.filter (rel o)) rows) :
    ∃ o ∈ rows, c = rows.filter (rel o) :=
  (classesBy_inv he rows (fun _ h => h)).1 c hc

/-- The classes cover the rows. -/
theorem classes_cover (he : EquivOn rel rows) {o : List σ} (ho : o ∈ rows) :
    ∃ c ∈ classesBy (fun o => rows.filter (rel o)) rows, o ∈ c :=
  (classesBy_inv he rows (fun _ h => h)).2.1 o ho

/-- The classes are pairwise disjoint. -/
theorem classes_disjoint (he : EquivOn rel rows) :
    (classesBy (fun o => rows.filter (rel o)) rows).Pairwise Disj :=
  (classesBy_inv he rows (fun _ h => h)).2.2

/-- Members of classes are rows. -/
theorem mem_rows_of_mem_class (he : EquivOn rel rows) {c : List (List σ)}
    (hc : c ∈ classesBy (fun o => rows.filter (rel o)) rows) {x : List σ} (hx : x ∈ c) :
    x ∈ rows := by
  obtain ⟨o, _, rfl⟩ := class_eq_filter he hc
  exact (List.mem_filter.mp hx).1

/-- A class is the class of each of its members (in particular of its first one). -/
theorem class_eq_filter_of_mem (he : EquivOn rel rows) {c : List (List σ)}
    (hc : c ∈ classesBy (fun o => rows.filter (rel o)) rows) {x : List σ} (hx : x ∈ c) :
    c = rows.filter (rel x) := by
  obtain ⟨o, ho, rfl⟩ := class_eq_filter he hc
  obtain ⟨hxr, hox⟩ := List.mem_filter.mp hx
  apply List.filter_congr
  intro y hy
  cases h1 : rel o y with
  | true => exact (he.trans x hxr o ho y hy (he.symm o ho x hxr hox) h1).symm
  | false =>
    cases h2 : rel x y with
    | true =>
      have := he.trans o ho x hxr y hy hox h2
      rw [h1] at this; cases this
    | false => rfl

/-- Every class is non-empty. -/
theorem class_ne_nil (he : EquivOn rel rows) {c : List (List σ)}
    (hc : c ∈ classesBy (fun o => rows.filter (rel o)) rows) : c ≠ [] := by
  obtain ⟨o, ho, rfl⟩ := class_eq_filter he hc
  exact List.ne_nil_of_mem (List.mem_filter.mpr ⟨ho, he.refl o ho⟩)

/-- Two members of one class are related; a row related to a member is a member. -/
theorem mem_class_iff (he : EquivOn rel rows) {c : List (List σ)}
    (hc : c ∈ classesBy (fun o => rows.filter (rel o)) rows) {x y : List σ} (hx : x ∈ c)
    (hy : y ∈ rows) : y ∈ c ↔ rel x y = true := by
  have e := class_eq_filter_of_mem he hc hx
  constructor
  · intro h; rw [e] at h; exact (List.mem_filter.mp h).2
  · intro h; rw [e]; exact List.mem_filter.mpr ⟨hy, h⟩

/-! ### `labelOf` -/

/-- The label of a covered outcome is the position of the first class containing it. -/
theorem labelOf_spec {classes : List (List (List σ))} {o : List σ}
    (h : ∃ c ∈ classes, o ∈ c) :
    ∃ i, labelOf classes o = i ∧ ∃ hi : i < classes.length, o ∈ classes[i] := by
  unfold labelOf
  cases hf : classes.findIdx? (fun c => c.contains o) with
  | none =>
    obtain ⟨c, hc, hoc⟩ := h
    have := List.findIdx?_eq_none_iff.mp hf c hc
    simp [hoc] at this
  | some i =>
    obtain ⟨hi, hp, _⟩ := List.findIdx?_eq_some_iff_getElem.mp hf
    exact ⟨i, rfl, hi, by simpa using hp⟩

/-- An outcome in no class gets the label `classes.length`. -/
theorem labelOf_of_not_mem {classes : List (List (List σ))} {o : List σ}
    (h : ∀ c ∈ classes, o ∉ c) : labelOf classes o = classes.length := by
  unfold labelOf
  have : classes.findIdx? (fun c => c.contains o) = none := by
    rw [List.findIdx?_eq_none_iff]
    intro c hc
    simpa using h c hc
  rw [this]; rfl

/-- In a family of pairwise disjoint classes an outcome lies in at most one position. -/
theorem index_unique {classes : List (List (List σ))} (hd : classes.Pairwise Disj) {o : List σ}
    {i j : Nat} (hi : i < classes.length) (hj : j < classes.length) (hoi : o ∈ classes[i])
    (hoj : o ∈ classes[j]) : i = j := by
  rw [List.pairwise_iff_getElem] at hd
  rcases Nat.lt_trichotomy i j with h | h | h
  · exact absurd hoj (hd i j hi hj h o hoi)
  · exact h
  · exact absurd hoi (hd j i hj hi h o hoj)

/-- **Labels identify classes**: two rows get the same label iff they are related. -/
theorem label_eq_iff (he : EquivOn rel rows) {o o' : List σ} (ho : o ∈ rows) (ho' : o' ∈ rows) :
    labelOf (classesBy (fun o => rows.filter (rel o)) rows) o
        = labelOf (classesBy (fun o => rows.filter (rel o)) rows) o'
      ↔ rel o o' = true := by
  obtain ⟨i, ei, hi, hoi⟩ := labelOf_spec (classes_cover he ho)
  obtain ⟨j, ej, hj, hoj⟩ := labelOf_spec (classes_cover he ho')
  rw [ei, ej]
  constructor
  · intro e
    subst e
    exact (mem_class_iff he (List.getElem_mem hi) hoi ho').mp hoj
  · intro hr
    have := (mem_class_iff he (List.getElem_mem hi) hoi ho').mpr hr
    exact index_unique (classes_disjoint he) hi hj this hoj

/-- The label of a row is a position in the list of classes. -/
theorem label_lt (he : EquivOn rel rows) {o : List σ} (ho : o ∈ rows) :
    labelOf (classesBy (fun o => rows.filter (rel o)) rows) o
      < (classesBy (fun o => rows.filter (rel o)) rows).length := by
  obtain ⟨i, ei, hi, _⟩ := labelOf_spec (classes_cover he ho)
  rw [ei]; exact hi

end Classes

end Dit.Lemmas.Meet
