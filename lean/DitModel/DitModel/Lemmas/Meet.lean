/-
Helper lemmas for C16 (meet, join, minimal sufficient statistic): the partition computed by
`classesBy`, the join relation, the connected components computed by `component`, entropies of
pushforwards along equivalent / coarser maps, the `mss` relation. Property theorems are in
Props/C16.lean.
-/
import DitModel.Core.Meet
import DitModel.Lemmas.InfoReal
import DitModel.Lemmas.Constructors
import Mathlib.Logic.Relation
import Mathlib.Logic.Function.Iterate

set_option linter.unusedSectionVars false

namespace Dit.Lemmas.Meet
open Dit Dit.Lemmas.Table

/-! ## `classesBy`: the partition of `rows` into the classes of an equivalence relation -/

section Classes
variable {σ : Type} [DecidableEq σ]

/-- `rel` is an equivalence relation on the members of `rows`. -/
structure EquivOn (rel : List σ → List σ → Bool) (rows : List (List σ)) : Prop where
  refl : ∀ o ∈ rows, rel o o = true
  symm : ∀ o ∈ rows, ∀ o' ∈ rows, rel o o' = true → rel o' o = true
  trans : ∀ o ∈ rows, ∀ o' ∈ rows, ∀ o'' ∈ rows, rel o o' = true → rel o' o'' = true →
    rel o o'' = true

/-- Two classes share no member. -/
def Disj (c c' : List (List σ)) : Prop := ∀ o, o ∈ c → o ∉ c'

theorem classesBy_snoc (cf : List σ → List (List σ)) (l : List (List σ)) (o : List σ) :
    classesBy cf (l ++ [o])
      = if (classesBy cf l).any (fun c => c.contains o) then classesBy cf l
        else classesBy cf l ++ [cf o] := by
  simp [classesBy, List.foldl_append]

/-- The class function only matters on the rows. -/
theorem classesBy_congr {cf cf' : List σ → List (List σ)} {l : List (List σ)}
    (h : ∀ o ∈ l, cf o = cf' o) : classesBy cf l = classesBy cf' l := by
  induction l using List.reverseRecOn with
  | nil => rfl
  | append_singleton l o ih =>
    rw [classesBy_snoc, classesBy_snoc,
      ih (fun x hx => h x (List.mem_append_left _ hx)), h o (by simp)]

variable {rel : List σ → List σ → Bool} {rows : List (List σ)}

/-- Invariant of the fold of `classesBy` over a list `l` of rows: every class built so far is the
class of a processed row, every processed row is in a class, and the classes are disjoint. -/
theorem classesBy_inv (he : EquivOn rel rows) (l : List (List σ)) (hl : ∀ o ∈ l, o ∈ rows) :
    (∀ c ∈ classesBy (fun o => rows.filter (rel o)) l, ∃ o ∈ l, c = rows.filter (rel o))
    ∧ (∀ o ∈ l, ∃ c ∈ classesBy (fun o => rows.filter (rel o)) l, o ∈ c)
    ∧ (classesBy (fun o => rows.filter (rel o)) l).Pairwise Disj := by
  induction l using List.reverseRecOn with
  | nil => simp [classesBy]
  | append_singleton l o ih =>
    have hl' : ∀ x ∈ l, x ∈ rows := fun x hx => hl x (List.mem_append_left _ hx)
    have ho : o ∈ rows := hl o (by simp)
    obtain ⟨h1, h2, h3⟩ := ih hl'
    rw [classesBy_snoc]
    by_cases hc : (classesBy (fun o => rows.filter (rel o)) l).any (fun c => c.contains o) = true
    · rw [if_pos hc]
      refine ⟨?_, ?_, h3⟩
      · intro c hcm
        obtain ⟨x, hx, e⟩ := h1 c hcm
        exact ⟨x, List.mem_append_left _ hx, e⟩
      · intro x hx
        rcases List.mem_append.mp hx with hx | hx
        · exact h2 x hx
        · have : x = o := by simpa using hx
          subst this
          obtain ⟨c, hcm, hco⟩ := List.any_eq_true.mp hc
          exact ⟨c, hcm, by simpa using hco⟩
    · rw [if_neg hc]
      have hnot : ∀ c ∈ classesBy (fun o => rows.filter (rel o)) l, o ∉ c := by
        intro c hcm hoc
        exact hc (List.any_eq_true.mpr ⟨c, hcm, by simpa using hoc⟩)
      refine ⟨?_, ?_, ?_⟩
      · intro c hcm
        rcases List.mem_append.mp hcm with hcm | hcm
        · obtain ⟨x, hx, e⟩ := h1 c hcm
          exact ⟨x, List.mem_append_left _ hx, e⟩
        · have : c = rows.filter (rel o) := by simpa using hcm
          exact ⟨o, by simp, this⟩
      · intro x hx
        rcases List.mem_append.mp hx with hx | hx
        · obtain ⟨c, hcm, hxc⟩ := h2 x hx
          exact ⟨c, List.mem_append_left _ hcm, hxc⟩
        · have : x = o := by simpa using hx
          subst this
          exact ⟨rows.filter (rel x), by simp, List.mem_filter.mpr ⟨ho, he.refl x ho⟩⟩
      · rw [List.pairwise_append]
        refine ⟨h3, by simp, ?_⟩
        intro c hcm c' hc'
        have hc'e : c' = rows.filter (rel o) := by simpa using hc'
        subst hc'e
        intro x hxc hxo
        obtain ⟨y, hy, e⟩ := h1 c hcm
        subst e
        obtain ⟨hxr, hyx⟩ := List.mem_filter.mp hxc
        obtain ⟨_, hox⟩ := List.mem_filter.mp hxo
        have hyr := hl' y hy
        have hxo' := he.symm o ho x hxr hox
        have hyo := he.trans y hyr x hxr o ho hyx hxo'
        exact hnot _ hcm (List.mem_filter.mpr ⟨ho, hyo⟩)

/-- The classes are classes of rows. -/
theorem class_eq_filter (he : EquivOn rel rows) {c : List (List σ)}
    (hc : c ∈ classesBy (fun o => rows.filter (rel o)) rows) :
    ∃ o ∈ rows, c = rows.filter (rel o) :=
  (classesBy_inv he rows (fun _ h => h)).1 c hc

/-- The classes cover the rows. -/
theorem classes_cover (he : EquivOn rel rows) {o : List σ} (ho : o ∈ rows) :
    ∃ c ∈ classesBy (fun o => rows.filter (rel o)) rows, o ∈ c :=
  (classesBy_inv he rows (fun _ h => h)).2.1 o ho

/-- The classes are pairwise disjoint. -/
theorem classes_disjoint (he : EquivOn rel rows) :
    (classesBy (fun o => rows.filter (rel o)) rows).Pairwise Disj :=
  (classesBy_inv he rows (fun _ h => h)).2.2

/-- Members of classes are rows. -/
theorem mem_rows_of_mem_class (he : EquivOn rel rows) {c : List (List σ)}
    (hc : c ∈ classesBy (fun o => rows.filter (rel o)) rows) {x : List σ} (hx : x ∈ c) :
    x ∈ rows := by
  obtain ⟨o, _, rfl⟩ := class_eq_filter he hc
  exact (List.mem_filter.mp hx).1

/-- A class is the class of each of its members (in particular of its first one). -/
theorem class_eq_filter_of_mem (he : EquivOn rel rows) {c : List (List σ)}
    (hc : c ∈ classesBy (fun o => rows.filter (rel o)) rows) {x : List σ} (hx : x ∈ c) :
    c = rows.filter (rel x) := by
  obtain ⟨o, ho, rfl⟩ := class_eq_filter he hc
  obtain ⟨hxr, hox⟩ := List.mem_filter.mp hx
  apply List.filter_congr
  intro y hy
  cases h1 : rel o y with
  | true => exact (he.trans x hxr o ho y hy (he.symm o ho x hxr hox) h1).symm
  | false =>
    cases h2 : rel x y with
    | true =>
      have := he.trans o ho x hxr y hy hox h2
      rw [h1] at this; cases this
    | false => rfl

/-- Every class is non-empty. -/
theorem class_ne_nil (he : EquivOn rel rows) {c : List (List σ)}
    (hc : c ∈ classesBy (fun o => rows.filter (rel o)) rows) : c ≠ [] := by
  obtain ⟨o, ho, rfl⟩ := class_eq_filter he hc
  exact List.ne_nil_of_mem (List.mem_filter.mpr ⟨ho, he.refl o ho⟩)

/-- Two members of one class are related; a row related to a member is a member. -/
theorem mem_class_iff (he : EquivOn rel rows) {c : List (List σ)}
    (hc : c ∈ classesBy (fun o => rows.filter (rel o)) rows) {x y : List σ} (hx : x ∈ c)
    (hy : y ∈ rows) : y ∈ c ↔ rel x y = true := by
  have e := class_eq_filter_of_mem he hc hx
  constructor
  · intro h; rw [e] at h; exact (List.mem_filter.mp h).2
  · intro h; rw [e]; exact List.mem_filter.mpr ⟨hy, h⟩

/-! ### `labelOf` -/

/-- The label of a covered outcome is the position of the first class containing it. -/
theorem labelOf_spec {classes : List (List (List σ))} {o : List σ}
    (h : ∃ c ∈ classes, o ∈ c) :
    ∃ i, labelOf classes o = i ∧ ∃ hi : i < classes.length, o ∈ classes[i] := by
  unfold labelOf
  cases hf : classes.findIdx? (fun c => c.contains o) with
  | none =>
    obtain ⟨c, hc, hoc⟩ := h
    have := List.findIdx?_eq_none_iff.mp hf c hc
    simp [hoc] at this
  | some i =>
    obtain ⟨hi, hp, _⟩ := List.findIdx?_eq_some_iff_getElem.mp hf
    exact ⟨i, rfl, hi, by simpa using hp⟩

/-- An outcome in no class gets the label `classes.length`. -/
theorem labelOf_of_not_mem {classes : List (List (List σ))} {o : List σ}
    (h : ∀ c ∈ classes, o ∉ c) : labelOf classes o = classes.length := by
  unfold labelOf
  have : classes.findIdx? (fun c => c.contains o) = none := by
    rw [List.findIdx?_eq_none_iff]
    intro c hc
    simpa using h c hc
  rw [this]; rfl

/-- In a family of pairwise disjoint classes an outcome lies in at most one position. -/
theorem index_unique {classes : List (List (List σ))} (hd : classes.Pairwise Disj) {o : List σ}
    {i j : Nat} (hi : i < classes.length) (hj : j < classes.length) (hoi : o ∈ classes[i])
    (hoj : o ∈ classes[j]) : i = j := by
  rw [List.pairwise_iff_getElem] at hd
  rcases Nat.lt_trichotomy i j with h | h | h
  · exact absurd hoj (hd i j hi hj h o hoi)
  · exact h
  · exact absurd hoi (hd j i hj hi h o hoj)

/-- **Labels identify classes**: two rows get the same label iff they are related. -/
theorem label_eq_iff (he : EquivOn rel rows) {o o' : List σ} (ho : o ∈ rows) (ho' : o' ∈ rows) :
    labelOf (classesBy (fun o => rows.filter (rel o)) rows) o
        = labelOf (classesBy (fun o => rows.filter (rel o)) rows) o'
      ↔ rel o o' = true := by
  obtain ⟨i, ei, hi, hoi⟩ := labelOf_spec (classes_cover he ho)
  obtain ⟨j, ej, hj, hoj⟩ := labelOf_spec (classes_cover he ho')
  rw [ei, ej]
  constructor
  · intro e
    subst e
    exact (mem_class_iff he (List.getElem_mem hi) hoi ho').mp hoj
  · intro hr
    have := (mem_class_iff he (List.getElem_mem hi) hoi ho').mpr hr
    exact index_unique (classes_disjoint he) hi hj this hoj

/-- The label of a row is a position in the list of classes. -/
theorem label_lt (he : EquivOn rel rows) {o : List σ} (ho : o ∈ rows) :
    labelOf (classesBy (fun o => rows.filter (rel o)) rows) o
      < (classesBy (fun o => rows.filter (rel o)) rows).length := by
  obtain ⟨i, ei, hi, _⟩ := labelOf_spec (classes_cover he ho)
  rw [ei]; exact hi

end Classes

/-! ## The join relation -/

section Join
variable {σ : Type} [DecidableEq σ]

theorem sameOn_iff (g : List Nat) (o o' : List σ) :
    sameOn g o o' = true ↔ project g o = project g o' := by
  simp [sameOn]

theorem joinRel_iff (groups : List (List Nat)) (o o' : List σ) :
    joinRel groups o o' = true ↔ ∀ g ∈ groups, project g o = project g o' := by
  simp [joinRel, sameOn]

theorem linkRel_iff (groups : List (List Nat)) (o o' : List σ) :
    linkRel groups o o' = true ↔ ∃ g ∈ groups, project g o = project g o' := by
  simp [linkRel, sameOn]

/-- Agreeing on every group is agreeing on the union of the groups. -/
theorem joinRel_iff_flatten (groups : List (List Nat)) (o o' : List σ) :
    joinRel groups o o' = true ↔ project groups.flatten o = project groups.flatten o' := by
  rw [joinRel_iff, InfoReal.project_eq_iff]
  constructor
  · intro h i hi
    obtain ⟨g, hg, hig⟩ := List.mem_flatten.mp hi
    exact (InfoReal.project_eq_iff g o o').mp (h g hg) i hig
  · intro h g hg
    rw [InfoReal.project_eq_iff]
    intro i hi
    exact h i (List.mem_flatten.mpr ⟨g, hg, hi⟩)

theorem joinRel_refl (groups : List (List Nat)) (o : List σ) : joinRel groups o o = true := by
  rw [joinRel_iff]; intros; rfl

theorem joinRel_symm (groups : List (List Nat)) {o o' : List σ}
    (h : joinRel groups o o' = true) : joinRel groups o' o = true := by
  rw [joinRel_iff] at h ⊢
  exact fun g hg => (h g hg).symm

theorem joinRel_trans (groups : List (List Nat)) {o o' o'' : List σ}
    (h : joinRel groups o o' = true) (h' : joinRel groups o' o'' = true) :
    joinRel groups o o'' = true := by
  rw [joinRel_iff] at h h' ⊢
  exact fun g hg => (h g hg).trans (h' g hg)

theorem joinRel_equivOn (groups : List (List Nat)) (rows : List (List σ)) :
    EquivOn (joinRel groups) rows :=
  ⟨fun o _ => joinRel_refl groups o, fun _ _ _ _ h => joinRel_symm groups h,
    fun _ _ _ _ _ _ h h' => joinRel_trans groups h h'⟩

theorem linkRel_symm (groups : List (List Nat)) {o o' : List σ}
    (h : linkRel groups o o' = true) : linkRel groups o' o = true := by
  rw [linkRel_iff] at h ⊢
  obtain ⟨g, hg, e⟩ := h
  exact ⟨g, hg, e.symm⟩

end Join

/-! ## Connected components -/

section Component
variable {σ : Type} [DecidableEq σ]

/-- `o'` can be reached from `o` by `link`-steps through members of `rows`. -/
def Reach (link : List σ → List σ → Bool) (rows : List (List σ)) : List σ → List σ → Prop :=
  Relation.ReflTransGen (fun a b => b ∈ rows ∧ link a b = true)

variable {link : List σ → List σ → Bool} {rows : List (List σ)}

theorem Reach.refl (o : List σ) : Reach link rows o o := Relation.ReflTransGen.refl

theorem Reach.trans {a b c : List σ} (h : Reach link rows a b) (h' : Reach link rows b c) :
    Reach link rows a c := Relation.ReflTransGen.trans h h'

theorem Reach.single {a b : List σ} (hb : b ∈ rows) (h : link a b = true) :
    Reach link rows a b := Relation.ReflTransGen.single ⟨hb, h⟩

/-- Everything reachable from a row is a row. -/
theorem Reach.mem {a b : List σ} (ha : a ∈ rows) (h : Reach link rows a b) : b ∈ rows := by
  induction h with
  | refl => exact ha
  | tail _ hstep _ => exact hstep.1

/-- For a symmetric `link`, reachability from a row is symmetric. -/
theorem Reach.symm (hs : ∀ a b, link a b = true → link b a = true) {a b : List σ}
    (ha : a ∈ rows) (h : Reach link rows a b) : Reach link rows b a := by
  induction h with
  | refl => exact Relation.ReflTransGen.refl
  | @tail b c hab hstep ih =>
    exact Relation.ReflTransGen.head ⟨Reach.mem ha hab, hs _ _ hstep.2⟩ ih

theorem foldl_range_const {β : Type} (F : β → β) (n : Nat) (x : β) :
    (List.range n).foldl (fun c _ => F c) x = F^[n] x := by
  induction n with
  | zero => rfl
  | succ n ih =>
    rw [List.range_succ, List.foldl_append, ih, Function.iterate_succ_apply']
    rfl

/-- The class after `k` rounds. -/
def rounds (link : List σ → List σ → Bool) (rows : List (List σ)) (o : List σ) (k : Nat) :
    List (List σ) := (growClass link rows)^[k] [o]

/-- The test applied by one round. -/
def growP (link : List σ → List σ → Bool) (cls : List (List σ)) (x : List σ) : Bool :=
  cls.contains x || cls.any (fun c => link c x)

theorem growP_iff {cls : List (List σ)} {x : List σ} :
    growP link cls x = true ↔ x ∈ cls ∨ ∃ c ∈ cls, link c x = true := by
  simp [growP]

theorem component_eq_rounds (link : List σ → List σ → Bool) (rows : List (List σ)) (o : List σ) :
    component link rows o = rounds link rows o rows.length :=
  foldl_range_const _ _ _

theorem rounds_zero (o : List σ) : rounds link rows o 0 = [o] := rfl

theorem rounds_succ (o : List σ) (k : Nat) :
    rounds link rows o (k + 1) = rows.filter (growP link (rounds link rows o k)) := by
  unfold rounds
  rw [Function.iterate_succ_apply']
  rfl

theorem mem_rounds_succ {o : List σ} {k : Nat} {x : List σ} :
    x ∈ rounds link rows o (k + 1)
      ↔ x ∈ rows ∧ (x ∈ rounds link rows o k ∨ ∃ c ∈ rounds link rows o k, link c x = true) := by
  rw [rounds_succ, List.mem_filter, growP_iff]

/-- Soundness: the rounds only add reachable rows. -/
theorem rounds_sound {o : List σ} (ho : o ∈ rows) (k : Nat) {x : List σ}
    (hx : x ∈ rounds link rows o k) : x ∈ rows ∧ Reach link rows o x := by
  induction k generalizing x with
  | zero =>
    have : x = o := by simpa [rounds_zero] using hx
    subst this; exact ⟨ho, Reach.refl x⟩
  | succ k ih =>
    rw [mem_rounds_succ] at hx
    obtain ⟨hxr, hx | ⟨c, hc, hl⟩⟩ := hx
    · exact ih hx
    · exact ⟨hxr, (ih hc).2.trans (Reach.single hxr hl)⟩

/-- The rounds are increasing. -/
theorem rounds_mono_succ {o : List σ} (ho : o ∈ rows) (k : Nat) {x : List σ}
    (hx : x ∈ rounds link rows o k) : x ∈ rounds link rows o (k + 1) := by
  rw [mem_rounds_succ]
  exact ⟨(rounds_sound ho k hx).1, Or.inl hx⟩

theorem rounds_mono {o : List σ} (ho : o ∈ rows) {j k : Nat} (hjk : j ≤ k) {x : List σ}
    (hx : x ∈ rounds link rows o j) : x ∈ rounds link rows o k := by
  induction hjk with
  | refl => exact hx
  | step _ ih => exact rounds_mono_succ ho _ ih

/-- A filter by a weaker predicate that accepts one more element is strictly longer. -/
theorem length_filter_lt {β : Type} (p q : β → Bool) (l : List β)
    (hpq : ∀ x ∈ l, p x = true → q x = true) (hex : ∃ x ∈ l, q x = true ∧ p x = false) :
    (l.filter p).length < (l.filter q).length := by
  induction l with
  | nil => obtain ⟨x, hx, _⟩ := hex; simp at hx
  | cons y l ih =>
    have hle : (l.filter p).length ≤ (l.filter q).length := by
      have := List.countP_mono_left (l := l) (p := p) (q := q)
        (fun x hx h => hpq x (List.mem_cons_of_mem _ hx) h)
      simpa [List.countP_eq_length_filter] using this
    obtain ⟨x, hx, hqx, hpx⟩ := hex
    rcases List.mem_cons.mp hx with rfl | hxl
    · rw [List.filter_cons_of_neg (by simp [hpx]), List.filter_cons_of_pos hqx]
      simp only [List.length_cons]; omega
    · have hlt := ih (fun z hz => hpq z (List.mem_cons_of_mem _ hz)) ⟨x, hxl, hqx, hpx⟩
      by_cases hpy : p y = true
      · rw [List.filter_cons_of_pos hpy, List.filter_cons_of_pos (hpq y (by simp) hpy)]
        simp only [List.length_cons]; omega
      · rw [List.filter_cons_of_neg hpy]
        by_cases hqy : q y = true
        · rw [List.filter_cons_of_pos hqy]; simp only [List.length_cons]; omega
        · rw [List.filter_cons_of_neg hqy]; exact hlt

/-- From round 1 on, either a round changes nothing or the class gets strictly longer. -/
theorem rounds_dichotomy {o : List σ} (ho : o ∈ rows) {k : Nat} (hk : 1 ≤ k) :
    rounds link rows o (k + 1) = rounds link rows o k
    ∨ (rounds link rows o k).length < (rounds link rows o (k + 1)).length := by
  obtain ⟨k, rfl⟩ : ∃ k', k = k' + 1 := ⟨k - 1, by omega⟩
  have hmono : ∀ z ∈ rows, growP link (rounds link rows o k) z = true
      → growP link (rounds link rows o (k + 1)) z = true := by
    intro z hz hp
    have hz1 : z ∈ rounds link rows o (k + 1) := by
      rw [rounds_succ]; exact List.mem_filter.mpr ⟨hz, hp⟩
    have hz2 := rounds_mono_succ ho (k + 1) hz1
    rw [rounds_succ] at hz2
    exact (List.mem_filter.mp hz2).2
  have e2 := rounds_succ (link := link) (rows := rows) o (k + 1)
  have e1 := rounds_succ (link := link) (rows := rows) o k
  by_cases hex : ∃ x ∈ rows, growP link (rounds link rows o (k + 1)) x = true
      ∧ growP link (rounds link rows o k) x = false
  · right
    rw [e2]; conv_lhs => rw [e1]
    exact length_filter_lt _ _ _ hmono hex
  · left
    rw [e2]; conv_rhs => rw [e1]
    apply List.filter_congr
    intro x hxr
    cases h1 : growP link (rounds link rows o k) x with
    | true => exact hmono x hxr h1
    | false =>
      cases h2 : growP link (rounds link rows o (k + 1)) x with
      | true => exact absurd ⟨x, hxr, h2, h1⟩ hex
      | false => rfl

/-- Once a round changes nothing, no later round does. -/
theorem rounds_stable {o : List σ} {j : Nat}
    (hj : rounds link rows o (j + 1) = rounds link rows o j) (m : Nat) :
    rounds link rows o (j + m) = rounds link rows o j := by
  induction m with
  | zero => rfl
  | succ m ih =>
    have : rounds link rows o (j + (m + 1)) = growClass link rows (rounds link rows o (j + m)) := by
      unfold rounds; rw [← Nat.add_assoc, Function.iterate_succ_apply']
    rw [this, ih]
    have : rounds link rows o (j + 1) = growClass link rows (rounds link rows o j) := by
      unfold rounds; rw [Function.iterate_succ_apply']
    rw [← this, hj]

/-- Counting: before stabilising, round `k ≥ 1` has at least `k` members. -/
theorem rounds_count {o : List σ} (ho : o ∈ rows) {k : Nat} (hk : 1 ≤ k) :
    (∃ j, j ≤ k ∧ rounds link rows o (j + 1) = rounds link rows o j)
    ∨ k ≤ (rounds link rows o k).length := by
  induction k, hk using Nat.le_induction with
  | base =>
    right
    have : o ∈ rounds link rows o 1 := rounds_mono_succ ho 0 (by simp [rounds_zero])
    exact List.length_pos_of_mem this
  | succ k hk ih =>
    rcases ih with ⟨j, hjk, hj⟩ | hlen
    · exact Or.inl ⟨j, by omega, hj⟩
    · rcases rounds_dichotomy (link := link) ho hk with h | h
      · exact Or.inl ⟨k, by omega, h⟩
      · right; omega

/-- The closure stabilises within `rows.length` rounds. -/
theorem rounds_stabilise {o : List σ} (ho : o ∈ rows) :
    ∃ j, j ≤ rows.length ∧ rounds link rows o (j + 1) = rounds link rows o j := by
  have hpos : 1 ≤ rows.length := List.length_pos_of_mem ho
  rcases rounds_count (link := link) ho hpos with h | hlen
  · exact h
  · refine ⟨rows.length, le_rfl, ?_⟩
    rcases rounds_dichotomy (link := link) ho hpos with h | h
    · exact h
    · exfalso
      have h2 : (rounds link rows o (rows.length + 1)).length ≤ rows.length := by
        rw [rounds_succ]; exact List.length_filter_le _ _
      omega

/-- **`component` computes the connected component**: for a row `o`, its members are exactly the
rows reachable from `o`. -/
theorem mem_component_iff {o : List σ} (ho : o ∈ rows) (x : List σ) :
    x ∈ component link rows o ↔ x ∈ rows ∧ Reach link rows o x := by
  rw [component_eq_rounds]
  refine ⟨rounds_sound ho _, ?_⟩
  rintro ⟨-, hreach⟩
  obtain ⟨j, hjn, hj⟩ := rounds_stabilise (link := link) ho
  have hst : rounds link rows o rows.length = rounds link rows o j := by
    have := rounds_stable hj (rows.length - j)
    rwa [Nat.add_sub_cancel' hjn] at this
  rw [hst]
  induction hreach with
  | refl => exact rounds_mono ho (Nat.zero_le j) (by simp [rounds_zero])
  | @tail b c _ hstep ih =>
    rw [← hj, mem_rounds_succ]
    exact ⟨hstep.1, Or.inr ⟨b, ih, hstep.2⟩⟩

/-- For a row `o` the computed component is the sub-list of the rows reachable from `o`. -/
theorem component_eq_filter {o : List σ} (ho : o ∈ rows)
    [DecidablePred (Reach link rows o)] :
    component link rows o = rows.filter (fun x => decide (Reach link rows o x)) := by
  have hpos : 0 < rows.length := List.length_pos_of_mem ho
  obtain ⟨n, hn⟩ : ∃ n, rows.length = n + 1 := ⟨rows.length - 1, by omega⟩
  have e : component link rows o = rows.filter (growP link (rounds link rows o n)) := by
    rw [component_eq_rounds, hn, rounds_succ]
  rw [e]
  apply List.filter_congr
  intro x hx
  have h1 : x ∈ rows.filter (growP link (rounds link rows o n)) ↔ Reach link rows o x := by
    rw [← e, mem_component_iff ho]; exact ⟨fun h => h.2, fun h => ⟨hx, h⟩⟩
  rw [List.mem_filter] at h1
  apply Bool.eq_iff_iff.mpr
  rw [decide_eq_true_iff]
  exact ⟨fun h => h1.mp ⟨hx, h⟩, fun h => (h1.mpr h).2⟩

end Component
section MeetSec
variable {σ : Type} [DecidableEq σ]

open Classical in
/-- Reachability as a Boolean relation (classically decided; proof device only). -/
noncomputable def reachB (link : List σ → List σ → Bool) (rows : List (List σ))
    (o x : List σ) : Bool := decide (Reach link rows o x)

open Classical in
theorem reachB_iff {link : List σ → List σ → Bool} {rows : List (List σ)} {o x : List σ} :
    reachB link rows o x = true ↔ Reach link rows o x := by
  unfold reachB; exact decide_eq_true_iff

/-- For a symmetric `link`, reachability is an equivalence relation on the rows. -/
theorem reachB_equivOn {link : List σ → List σ → Bool}
    (hs : ∀ a b, link a b = true → link b a = true) (rows : List (List σ)) :
    EquivOn (reachB link rows) rows := by
  refine ⟨fun o _ => reachB_iff.mpr (Reach.refl o), ?_, ?_⟩
  · intro o ho o' _ h
    exact reachB_iff.mpr (Reach.symm hs ho (reachB_iff.mp h))
  · intro o _ o' _ o'' _ h h'
    exact reachB_iff.mpr ((reachB_iff.mp h).trans (reachB_iff.mp h'))

/-- The classes computed with `component` are the classes of the reachability relation. -/
theorem classesBy_component (link : List σ → List σ → Bool) (rows : List (List σ)) :
    classesBy (component link rows) rows
      = classesBy (fun o => rows.filter (reachB link rows o)) rows := by
  apply classesBy_congr
  intro o ho
  classical
  rw [component_eq_filter ho]
  apply List.filter_congr
  intro x _
  unfold reachB
  congr

theorem meetClasses_eq (groups : List (List Nat)) (rows : List (List σ)) :
    meetClasses groups rows
      = classesBy (fun o => rows.filter (reachB (linkRel groups) rows o)) rows :=
  classesBy_component _ _

theorem meet_equivOn (groups : List (List Nat)) (rows : List (List σ)) :
    EquivOn (reachB (linkRel groups (σ := σ)) rows) rows :=
  reachB_equivOn (fun _ _ h => linkRel_symm groups h) rows

/-- A labelling that is a function of each group separately is constant along paths. -/
theorem const_of_reach {β : Type} (groups : List (List Nat)) (rows : List (List σ))
    (ℓ : List σ → β)
    (hℓ : ∀ g ∈ groups, ∀ o ∈ rows, ∀ o' ∈ rows, project g o = project g o' → ℓ o = ℓ o')
    {o o' : List σ} (ho : o ∈ rows) (h : Reach (linkRel groups) rows o o') : ℓ o = ℓ o' := by
  induction h with
  | refl => rfl
  | @tail b c hob hstep ih =>
    obtain ⟨g, hg, e⟩ := (linkRel_iff groups b c).mp hstep.2
    exact ih.trans (hℓ g hg b (Reach.mem ho hob) c hstep.1 e)

end MeetSec
/-! ## Entropy of the image of a table under a map -/

section Entropy
open Dit.Lemmas.InfoReal Dit.Lemmas.InfoAlg

variable {κ κ₁ κ₂ : Type}

/-- Entropy (bits) of the law of `f` under the table `t`. -/
noncomputable def Hmap [DecidableEq κ₁] (f : κ → κ₁) (t : Tab κ ℝ) : ℝ :=
  entropyVals (Real.logb 2) (vals (pushforward f t))

theorem entropyOf_eq_Hmap {σ : Type} [DecidableEq σ] (t : Tab (List σ) ℝ) (X : List Nat) :
    entropyOf (Real.logb 2) t X = Hmap (project X) t := rfl

theorem pushforward_map_key {α : Type} [Add α] [DecidableEq κ₂] (f : κ₁ → κ₂) (g : κ → κ₁)
    (t : Tab κ α) :
    pushforward f (t.map (fun r => (g r.1, r.2))) = pushforward (fun k => f (g k)) t := by
  unfold pushforward
  rw [List.foldl_map]

/-- Row form: `H(f) = −Σ_rows v · log₂ P(f = f key)`. -/
theorem Hmap_rows [DecidableEq κ₁] (f : κ → κ₁) (t : Tab κ ℝ) :
    Hmap f t = -(t.map (fun r => r.2 * Real.logb 2 (fibreSum f t (f r.1)))).sum := by
  unfold Hmap
  rw [entropyVals_eq_sum, vals, List.map_map]
  congr 1
  rw [← sum_pushforward (fun k v => v * Real.logb 2 (fibreSum f t k))
    (by intro k v v'; ring) f t]
  congr 1
  apply List.map_congr_left
  intro r hr
  simp only [Function.comp_apply]
  rw [← pushforward_val f t r hr]

/-- The weights of the rows, indexed by position. -/
def wOf (t : Tab κ ℝ) : Fin t.length → ℝ := fun j => t[j.1].2

/-- The value of `f` on the key of the row at a position. -/
def atRow (f : κ → κ₁) (t : Tab κ ℝ) : Fin t.length → κ₁ := fun j => f t[j.1].1

theorem fibreSum_eq_cm [DecidableEq κ₁] (f : κ → κ₁) (t : Tab κ ℝ) (i : Fin t.length) :
    fibreSum f t (f t[i.1].1) = cm (wOf t) (atRow f t) i := by
  rw [fibreSum_eq_ite, cm]
  exact (Fin.sum_univ_fun_getElem t (fun r => if f r.1 = f t[i.1].1 then r.2 else 0)).symm

/-- Finset form: `H(f) = −Σ_i w_i log₂ (mass of the f-class of row i)`. -/
theorem Hmap_fin [DecidableEq κ₁] (f : κ → κ₁) (t : Tab κ ℝ) :
    Hmap f t = -∑ i : Fin t.length, wOf t i * Real.logb 2 (cm (wOf t) (atRow f t) i) := by
  rw [Hmap_rows]
  congr 1
  rw [← Fin.sum_univ_fun_getElem t (fun r => r.2 * Real.logb 2 (fibreSum f t (f r.1)))]
  apply Finset.sum_congr rfl
  intro i _
  rw [fibreSum_eq_cm]; rfl

theorem cm_congr_equiv {ι β β' : Type} [Fintype ι] [DecidableEq β] [DecidableEq β']
    (w : ι → ℝ) (a : ι → β) (b : ι → β') (i : ι) (h : ∀ j, a j = a i ↔ b j = b i) :
    cm w a i = cm w b i := by
  unfold cm
  apply Finset.sum_congr rfl
  intro j _
  by_cases hj : a j = a i
  · rw [if_pos hj, if_pos ((h j).mp hj)]
  · rw [if_neg hj, if_neg (fun hb => hj ((h j).mpr hb))]

theorem mem_keys_getElem (t : Tab κ ℝ) (i : Fin t.length) : t[i.1].1 ∈ keys t :=
  List.mem_map_of_mem (List.getElem_mem i.2)

/-- **Equivalent maps have equal entropy**: if `f` and `g` identify the same pairs of stored
outcomes, the laws of `f` and `g` have the same entropy (any real table). -/
theorem Hmap_equiv [DecidableEq κ₁] [DecidableEq κ₂] (f : κ → κ₁) (g : κ → κ₂) (t : Tab κ ℝ)
    (h : ∀ k ∈ keys t, ∀ k' ∈ keys t, f k = f k' ↔ g k = g k') : Hmap f t = Hmap g t := by
  rw [Hmap_fin, Hmap_fin]
  congr 1
  apply Finset.sum_congr rfl
  intro i _
  rw [cm_congr_equiv (wOf t) (atRow f t) (atRow g t) i
    (fun j => h _ (mem_keys_getElem t j) _ (mem_keys_getElem t i))]

/-- **A function of a variable has at most its entropy**: if `f` is determined by `g` on the
stored outcomes of a table with non-negative values, `H(f) ≤ H(g)`. -/
theorem Hmap_le_of_function [DecidableEq κ₁] [DecidableEq κ₂] (f : κ → κ₁) (g : κ → κ₂)
    (t : Tab κ ℝ) (hnn : ∀ r ∈ t, 0 ≤ r.2)
    (h : ∀ k ∈ keys t, ∀ k' ∈ keys t, g k = g k' → f k = f k') : Hmap f t ≤ Hmap g t := by
  have hw : ∀ i : Fin t.length, 0 ≤ wOf t i := fun i => hnn _ (List.getElem_mem i.2)
  have hfg : ∀ i j : Fin t.length, atRow g t i = atRow g t j → atRow f t i = atRow f t j :=
    fun i j e => h _ (mem_keys_getElem t i) _ (mem_keys_getElem t j) e
  have hcore := core_log hw
    (fun j => (Sum.inr (atRow g t j) : κ₁ ⊕ κ₂)) (fun j => Sum.inr (atRow g t j))
    (fun j => Sum.inr (atRow g t j)) (fun j => Sum.inl (atRow f t j))
    (by intro i j e; simpa using hfg i j (by simpa using e))
    (by intro i j e; simpa using hfg i j (by simpa using e))
    (by intro i j e _; exact e)
  have e1 : ∀ i, cm (wOf t) (fun j => (Sum.inr (atRow g t j) : κ₁ ⊕ κ₂)) i
      = cm (wOf t) (atRow g t) i :=
    fun i => cm_congr_equiv _ _ _ i (fun j => by simp)
  have e2 : ∀ i, cm (wOf t) (fun j => (Sum.inl (atRow f t j) : κ₁ ⊕ κ₂)) i
      = cm (wOf t) (atRow f t) i :=
    fun i => cm_congr_equiv _ _ _ i (fun j => by simp)
  simp only [e1, e2] at hcore
  rw [Hmap_fin, Hmap_fin]
  have hl : 0 < Real.log 2 := Real.log_pos (by norm_num)
  have hdiv := div_nonneg hcore hl.le
  rw [← sub_nonneg]
  refine le_trans hdiv (le_of_eq ?_)
  rw [Finset.sum_div, neg_sub_neg, ← Finset.sum_sub_distrib]
  apply Finset.sum_congr rfl
  intro i _
  simp only [← Real.log_div_log]
  ring

/-- Pairing a variable with a function of it does not change the entropy. -/
theorem Hmap_pair [DecidableEq κ₁] [DecidableEq κ₂] (f : κ → κ₁) (g : κ → κ₂) (t : Tab κ ℝ)
    (h : ∀ k ∈ keys t, ∀ k' ∈ keys t, g k = g k' → f k = f k') :
    Hmap (fun k => (f k, g k)) t = Hmap g t := by
  apply Hmap_equiv
  intro k hk k' hk'
  constructor
  · intro e; exact (Prod.mk.inj e).2
  · intro e; rw [e, h k hk k' hk' e]

/-- Entropy is non-negative for a sub-probability table. -/
theorem Hmap_nonneg [DecidableEq κ₁] (f : κ → κ₁) (t : Tab κ ℝ) (hnn : ∀ r ∈ t, 0 ≤ r.2)
    (hmass : (t.map (·.2)).sum ≤ 1) : 0 ≤ Hmap f t := by
  rw [Hmap_rows, neg_nonneg]
  apply list_sum_nonpos
  intro x hx
  obtain ⟨r, hr, rfl⟩ := List.mem_map.mp hx
  have h0 := hnn r hr
  have hle : fibreSum f t (f r.1) ≤ 1 := by
    rw [fibreSum_eq_ite]
    refine le_trans ?_ hmass
    apply List.sum_le_sum
    intro s hs
    split
    · exact le_rfl
    · exact hnn s hs
  rcases h0.eq_or_lt with h0 | hpos
  · rw [← h0, zero_mul]
  · have hfpos : 0 < fibreSum f t (f r.1) := by
      rw [fibreSum_eq_ite]
      have : r.2 ≤ (t.map (fun s => if f s.1 = f r.1 then s.2 else 0)).sum := by
        have h1 := List.single_le_sum (l := t.map (fun s => if f s.1 = f r.1 then s.2 else 0))
          (by
            intro x hx
            obtain ⟨s, hs, rfl⟩ := List.mem_map.mp hx
            split
            · exact hnn s hs
            · exact le_rfl)
          (if f r.1 = f r.1 then r.2 else 0) (List.mem_map.mpr ⟨r, hr, rfl⟩)
        simpa using h1
      linarith
    exact mul_nonpos_of_nonneg_of_nonpos hpos.le
      (Real.logb_nonpos (by norm_num) hfpos.le hle)

end Entropy
/-! ## The relation behind the minimal sufficient statistic -/

section Mss
variable {σ α : Type} [DecidableEq σ] [DecidableEq α] [Field α]

theorem lookupD_of_mem {κ : Type} [DecidableEq κ] {t : Tab κ α} (hnd : (keys t).Nodup) {k : κ}
    {v : α} (h : (k, v) ∈ t) : lookupD 0 t k = v := by
  unfold lookupD; rw [(lookup?_eq_some_iff hnd).mpr h]; rfl

/-- On tables listing each key once, `sameLaw` is equality of the functions they tabulate. -/
theorem sameLaw_iff {a b : Tab (List σ) α} (ha : (keys a).Nodup) (hb : (keys b).Nodup) :
    sameLaw a b = true ↔ ∀ k, lookupD 0 a k = lookupD 0 b k := by
  unfold sameLaw
  simp only [Bool.and_eq_true, List.all_eq_true, decide_eq_true_eq]
  constructor
  · rintro ⟨h1, h2⟩ k
    by_cases hka : k ∈ keys a
    · obtain ⟨v, hv⟩ := mem_keys.mp hka
      rw [lookupD_of_mem ha hv]; exact (h1 (k, v) hv).symm
    · rw [lookupD_of_not_mem 0 hka]
      by_cases hkb : k ∈ keys b
      · obtain ⟨v, hv⟩ := mem_keys.mp hkb
        have := h2 (k, v) hv
        rw [lookupD_of_not_mem 0 hka] at this
        rw [lookupD_of_mem hb hv]; exact this
      · rw [lookupD_of_not_mem 0 hkb]
  · intro h
    refine ⟨fun r hr => ?_, fun r hr => ?_⟩
    · rw [← h r.1]; exact lookupD_of_mem ha hr
    · rw [h r.1]; exact lookupD_of_mem hb hr

theorem keys_map_val {κ : Type} (l : Tab κ α) (F : κ × α → α) :
    keys (l.map (fun r => (r.1, F r))) = keys l := by
  simp [keys, Function.comp_def]

theorem condLawAt_keys_nodup (t : Tab (List σ) α) (rvs about : List Nat) (o : List σ) :
    (keys (condLawAt t rvs about o)).Nodup := by
  unfold condLawAt
  simp only
  rw [keys_map_val _ (fun r => r.2 / _)]
  exact keys_pushforward_nodup _ _

theorem lookupD_map_div {κ : Type} [DecidableEq κ] (l : Tab κ α) (c : α) (k : κ) :
    lookupD 0 (l.map (fun r => (r.1, r.2 / c))) k = lookupD 0 l k / c := by
  induction l with
  | nil => simp [lookupD]
  | cons r l ih =>
    unfold lookupD at ih ⊢
    rw [List.map_cons, lookup?_cons, lookup?_cons]
    by_cases h : r.1 = k
    · simp [h]
    · simp only [h, if_false]; exact ih

/-- `P(about = y | rvs = the values in o)`: the conditional probability read off the table. -/
def condP (t : Tab (List σ) α) (rvs about : List Nat) (o y : List σ) : α :=
  wtBy (fun k => project about k = y ∧ project rvs k = project rvs o) t
    / wtBy (fun k => project rvs k = project rvs o) t

/-- The table `condLawAt` tabulates the conditional probabilities. -/
theorem lookupD_condLawAt (t : Tab (List σ) α) (rvs about : List Nat) (o y : List σ) :
    lookupD 0 (condLawAt t rvs about o) y = condP t rvs about o y := by
  unfold condLawAt condP
  simp only
  rw [lookupD_map_div, lookupD_pushforward,
    Cond.wtBy_filter_key (fun k => project about k = y) (fun k => project rvs k = project rvs o) t,
    Lemmas.Table.lsum_eq_sum]
  congr 1
  have := Cond.wtBy_filter_key (fun _ => True) (fun k => project rvs k = project rvs o) t
  rw [wtBy_true, mass_eq_sum] at this
  rw [show (List.map (fun x => x.2) (List.filter (fun r => decide (project rvs r.1 = project rvs o)) t))
      = vals (List.filter (fun r => decide (project rvs r.1 = project rvs o)) t) from rfl, this]
  apply Cond.wtBy_congr_fun
  intro k; simp

/-- The relation whose classes `mssClasses` computes. -/
def mssRel (t : Tab (List σ) α) (rvs about : List Nat) (o o' : List σ) : Bool :=
  sameLaw (condLawAt t rvs about o) (condLawAt t rvs about o')

theorem mssClasses_eq (t : Tab (List σ) α) (rvs about : List Nat) :
    mssClasses t rvs about
      = classesBy (fun o => (keys t).filter (mssRel t rvs about o)) (keys t) := rfl

/-- Two outcomes are related iff they induce the same conditional law of `about`. -/
theorem mssRel_iff (t : Tab (List σ) α) (rvs about : List Nat) (o o' : List σ) :
    mssRel t rvs about o o' = true ↔ ∀ y, condP t rvs about o y = condP t rvs about o' y := by
  unfold mssRel
  rw [sameLaw_iff (condLawAt_keys_nodup _ _ _ _) (condLawAt_keys_nodup _ _ _ _)]
  simp only [lookupD_condLawAt]

theorem mss_equivOn (t : Tab (List σ) α) (rvs about : List Nat) (rows : List (List σ)) :
    EquivOn (mssRel t rvs about) rows := by
  refine ⟨?_, ?_, ?_⟩
  · intro o _; rw [mssRel_iff]; intro y; rfl
  · intro o _ o' _ h; rw [mssRel_iff] at h ⊢; exact fun y => (h y).symm
  · intro o _ o' _ o'' _ h h'; rw [mssRel_iff] at h h' ⊢; exact fun y => (h y).trans (h' y)

/-- The relation looks at an outcome only through its `rvs`-values. -/
theorem mssRel_of_project_eq (t : Tab (List σ) α) (rvs about : List Nat) {o o' : List σ}
    (h : project rvs o = project rvs o') : mssRel t rvs about o o' = true := by
  rw [mssRel_iff]
  intro y
  unfold condP
  rw [h]

end Mss
/-! ## Sufficiency: a statistic whose cells have a common conditional law keeps the information -/

section Suff
open Dit.Lemmas.InfoReal Finset

variable {ι : Type} [Fintype ι] {β₁ β₂ β₃ : Type} [DecidableEq β₁] [DecidableEq β₂]
  [DecidableEq β₃]

/-- Joint mass `P(x = x_i, y = y_k)`. -/
noncomputable def pXY (w : ι → ℝ) (x : ι → β₁) (y : ι → β₂) (i k : ι) : ℝ :=
  ∑ m, if x m = x i ∧ y m = y k then w m else 0

variable {w : ι → ℝ} (hw : ∀ i, 0 ≤ w i) (x : ι → β₁) (y : ι → β₂) (s : ι → β₃)
  (h1 : ∀ i j, x i = x j → s i = s j)
  (h2 : ∀ i j, s i = s j → ∀ k, pXY w x y i k / cm w x i = pXY w x y j k / cm w x j)

include hw h1 in
theorem suff_term (i k l : ι) :
    (if s l = s i ∧ y l = y k then w l else 0)
      = ∑ m, (if s m = s i
          then w m * ((if x l = x m ∧ y l = y k then w l else 0) / cm w x m) else 0) := by
  by_cases hy : y l = y k
  · by_cases hs : s l = s i
    · rw [if_pos ⟨hs, hy⟩]
      have e : ∀ m ∈ (Finset.univ : Finset ι),
          (if s m = s i
            then w m * ((if x l = x m ∧ y l = y k then w l else 0) / cm w x m) else 0)
          = (if x m = x l then w m else 0) * (w l / cm w x l) := by
        intro m _
        by_cases hx : x m = x l
        · have hsm : s m = s i := (h1 m l hx).trans hs
          rw [if_pos hsm, if_pos ⟨hx.symm, hy⟩, if_pos hx, cm_congr_cls x hx]
        · have hin : ¬(x l = x m ∧ y l = y k) := fun h => hx h.1.symm
          rw [if_neg hx, if_neg hin]
          split <;> simp
      rw [Finset.sum_congr rfl e, ← Finset.sum_mul]
      change w l = cm w x l * (w l / cm w x l)
      by_cases h0 : cm w x l = 0
      · have : w l = 0 := le_antisymm (h0 ▸ le_cm hw x l) (hw l)
        rw [this]; simp
      · field_simp
    · rw [if_neg (fun h => hs h.1)]
      symm
      apply Finset.sum_eq_zero
      intro m _
      by_cases hsm : s m = s i
      · rw [if_pos hsm, if_neg, zero_div, mul_zero]
        rintro ⟨hx, _⟩
        exact hs ((h1 l m hx).trans hsm)
      · rw [if_neg hsm]
  · rw [if_neg (fun h => hy h.2)]
    symm
    apply Finset.sum_eq_zero
    intro m _
    rw [if_neg (fun h : x l = x m ∧ y l = y k => hy h.2)]
    split <;> simp

include hw h1 h2 in
/-- In a cell of `s` all `x` have the same `P(y | x)`, hence `P(s, y) = P(y | x) · P(s)`. -/
theorem suff_mass (i k : ι) :
    (∑ l, if s l = s i ∧ y l = y k then w l else 0)
      = pXY w x y i k / cm w x i * cm w s i := by
  rw [Finset.sum_congr rfl (fun l _ => suff_term hw x y s h1 i k l), Finset.sum_comm]
  have e : ∀ m ∈ (Finset.univ : Finset ι),
      (∑ l, if s m = s i
          then w m * ((if x l = x m ∧ y l = y k then w l else 0) / cm w x m) else 0)
        = (if s m = s i then w m else 0) * (pXY w x y i k / cm w x i) := by
    intro m _
    by_cases hsm : s m = s i
    · simp only [if_pos hsm]
      rw [← Finset.mul_sum, ← Finset.sum_div, ← h2 m i hsm k]
      rfl
    · simp [if_neg hsm]
  rw [Finset.sum_congr rfl e, ← Finset.sum_mul, mul_comm]
  rfl

omit [DecidableEq β₃] in
theorem cm_pair (w : ι → ℝ) (x : ι → β₁) (y : ι → β₂) (i : ι) :
    cm w (fun m => (x m, y m)) i = pXY w x y i i := by
  unfold cm pXY
  apply Finset.sum_congr rfl
  intro m _
  simp only [Prod.mk.injEq]

include hw h1 h2 in
/-- **Sufficiency** in class-mass form: `Σ w (log P(x) − log P(x,y) − log P(s) + log P(s,y)) = 0`. -/
theorem suff_log :
    ∑ i, w i * (Real.log (cm w x i) - Real.log (cm w (fun m => (x m, y m)) i)
        - Real.log (cm w s i) + Real.log (cm w (fun m => (s m, y m)) i)) = 0 := by
  apply Finset.sum_eq_zero
  intro i _
  rcases (hw i).eq_or_lt with h0 | hpos
  · rw [← h0, zero_mul]
  · have px := hpos.trans_le (le_cm hw x i)
    have pxy := hpos.trans_le (le_cm hw (fun m => (x m, y m)) i)
    have ps := hpos.trans_le (le_cm hw s i)
    have e : cm w (fun m => (s m, y m)) i
        = cm w (fun m => (x m, y m)) i / cm w x i * cm w s i := by
      rw [cm_pair w s y i, cm_pair w x y i]
      exact suff_mass hw x y s h1 h2 i i
    rw [e, Real.log_mul (div_pos pxy px).ne' ps.ne', Real.log_div pxy.ne' px.ne']
    ring

end Suff

section SuffTab
open Dit.Lemmas.InfoReal

variable {κ κ₁ κ₂ κ₃ : Type} [DecidableEq κ₁] [DecidableEq κ₂] [DecidableEq κ₃]

theorem wtBy_eq_fin (p : κ → Prop) [DecidablePred p] (t : Tab κ ℝ) :
    wtBy p t = ∑ j : Fin t.length, if p t[j.1].1 then t[j.1].2 else 0 := by
  unfold wtBy
  exact (Fin.sum_univ_fun_getElem t (fun r => if p r.1 then r.2 else 0)).symm

/-- **A sufficient statistic keeps the mutual information** (`H(S) − H(S,Y) = H(X) − H(X,Y)`):
`S` is a function of `X`, and outcomes with the same `S` have the same conditional law of `Y`
given their `X`. -/
theorem Hmap_sufficient (X : κ → κ₁) (Y : κ → κ₂) (S : κ → κ₃) (t : Tab κ ℝ)
    (hnn : ∀ r ∈ t, 0 ≤ r.2)
    (h1 : ∀ k ∈ keys t, ∀ k' ∈ keys t, X k = X k' → S k = S k')
    (h2 : ∀ k ∈ keys t, ∀ k' ∈ keys t, S k = S k' → ∀ yv,
      wtBy (fun a => Y a = yv ∧ X a = X k) t / wtBy (fun a => X a = X k) t
        = wtBy (fun a => Y a = yv ∧ X a = X k') t / wtBy (fun a => X a = X k') t) :
    Hmap S t - Hmap (fun k => (S k, Y k)) t = Hmap X t - Hmap (fun k => (X k, Y k)) t := by
  have hw : ∀ i : Fin t.length, 0 ≤ wOf t i := fun i => hnn _ (List.getElem_mem i.2)
  have hcm : ∀ i : Fin t.length,
      wtBy (fun a => X a = X t[i.1].1) t = cm (wOf t) (atRow X t) i := by
    intro i; rw [wtBy_eq_fin]; rfl
  have hp : ∀ i k : Fin t.length,
      wtBy (fun a => Y a = Y t[k.1].1 ∧ X a = X t[i.1].1) t
        = pXY (wOf t) (atRow X t) (atRow Y t) i k := by
    intro i k; rw [wtBy_eq_fin]; unfold pXY
    apply Finset.sum_congr rfl
    intro m _
    by_cases h : Y t[m.1].1 = Y t[k.1].1 ∧ X t[m.1].1 = X t[i.1].1
    · rw [if_pos h, if_pos ⟨h.2, h.1⟩]; rfl
    · rw [if_neg h, if_neg (fun h' => h ⟨h'.2, h'.1⟩)]
  have hlog := suff_log hw (atRow X t) (atRow Y t) (atRow S t)
    (fun i j e => h1 _ (mem_keys_getElem t i) _ (mem_keys_getElem t j) e)
    (by
      intro i j e k
      have := h2 _ (mem_keys_getElem t i) _ (mem_keys_getElem t j) e (Y t[k.1].1)
      rw [hp i k, hp j k, hcm i, hcm j] at this
      exact this)
  rw [Hmap_fin, Hmap_fin, Hmap_fin, Hmap_fin]
  have hl : Real.log 2 ≠ 0 := (Real.log_pos (by norm_num)).ne'
  have hdiv : (∑ i, wOf t i * (Real.log (cm (wOf t) (atRow X t) i)
        - Real.log (cm (wOf t) (fun m => (atRow X t m, atRow Y t m)) i)
        - Real.log (cm (wOf t) (atRow S t) i)
        + Real.log (cm (wOf t) (fun m => (atRow S t m, atRow Y t m)) i))) / Real.log 2 = 0 := by
    rw [hlog, zero_div]
  rw [← sub_eq_zero]
  refine Eq.trans ?_ hdiv
  rw [Finset.sum_div, neg_sub_neg, neg_sub_neg, ← Finset.sum_sub_distrib,
    ← Finset.sum_sub_distrib, ← Finset.sum_sub_distrib]
  apply Finset.sum_congr rfl
  intro i _
  simp only [← Real.log_div_log]
  have a1 : atRow (fun k => (S k, Y k)) t = fun m => (atRow S t m, atRow Y t m) := rfl
  have a2 : atRow (fun k => (X k, Y k)) t = fun m => (atRow X t m, atRow Y t m) := rfl
  rw [a1, a2]
  ring

end SuffTab
/-! ## The table with an appended label variable -/

section InsertLabel
open Dit.Lemmas.Constructors Dit.Lemmas.InfoReal

variable {σ : Type} [DecidableEq σ]

/-- Entropies of the marginals of `insert_rvf`'s result are entropies of maps on the old table. -/
theorem entropyOf_insertRvf (F : List σ → List σ) (index : Option Nat) (t : Tab (List σ) ℝ)
    (X : List Nat) :
    entropyOf (Real.logb 2) (insertRvf F index t) X
      = Hmap (fun o => project X (insOut F index o)) t := by
  unfold entropyOf Hmap
  rw [insertRvf_eq_map, pushforward_map_key]

theorem project_append_of_lt {U : List Nat} {o : List σ} (h : ∀ i ∈ U, i < o.length)
    (z : List σ) : project U (o ++ z) = project U o := by
  unfold project
  apply List.filterMap_congr
  intro i hi
  exact List.getElem?_append_left (h i hi)

theorem project_new (o : List σ) (s : σ) : project [o.length] (o ++ [s]) = [s] := by
  simp [project]

theorem project_append_new {U : List Nat} {o : List σ} (h : ∀ i ∈ U, i < o.length) (s : σ) :
    project (U ++ [o.length]) (o ++ [s]) = project U o ++ [s] := by
  rw [project_append, project_append_of_lt h, project_new]

variable (ℓ : List σ → σ) (n : Nat) (t : Tab (List σ) ℝ) (hn : ∀ k ∈ keys t, k.length = n)
include hn

/-- The appended variable, read at position `n`, has the entropy of the labelling. -/
theorem entropyOf_new :
    entropyOf (Real.logb 2) (insertRvf (fun o => [ℓ o]) none t) [n] = Hmap ℓ t := by
  rw [entropyOf_insertRvf]
  apply Hmap_equiv
  intro k hk k' hk'
  show project [n] (k ++ [ℓ k]) = project [n] (k' ++ [ℓ k']) ↔ _
  rw [← hn k hk, project_new, hn k hk, ← hn k' hk', project_new]
  simp

/-- Old variables keep their entropies. -/
theorem entropyOf_old (U : List Nat) (hU : ∀ i ∈ U, i < n) :
    entropyOf (Real.logb 2) (insertRvf (fun o => [ℓ o]) none t) U
      = entropyOf (Real.logb 2) t U := by
  rw [entropyOf_insertRvf, entropyOf_eq_Hmap]
  apply Hmap_equiv
  intro k hk k' hk'
  show project U (k ++ [ℓ k]) = project U (k' ++ [ℓ k']) ↔ _
  rw [project_append_of_lt (by rw [hn k hk]; exact hU),
    project_append_of_lt (by rw [hn k' hk']; exact hU)]

/-- Old variables together with the new one: the entropy of the pair (values on `U`, label). -/
theorem entropyOf_old_new (U : List Nat) (hU : ∀ i ∈ U, i < n) :
    entropyOf (Real.logb 2) (insertRvf (fun o => [ℓ o]) none t) (U ++ [n])
      = Hmap (fun o => (ℓ o, project U o)) t := by
  rw [entropyOf_insertRvf]
  apply Hmap_equiv
  intro k hk k' hk'
  show project (U ++ [n]) (k ++ [ℓ k]) = project (U ++ [n]) (k' ++ [ℓ k']) ↔ _
  have e1 := project_append_new (U := U) (o := k) (by rw [hn k hk]; exact hU) (ℓ k)
  have e2 := project_append_new (U := U) (o := k') (by rw [hn k' hk']; exact hU) (ℓ k')
  rw [hn k hk] at e1; rw [hn k' hk'] at e2
  rw [e1, e2]
  have hlen : (project U k).length = (project U k').length := by
    rw [length_project (by rw [hn k hk]; exact hU), length_project (by rw [hn k' hk']; exact hU)]
  constructor
  · intro e
    obtain ⟨a, b⟩ := List.append_inj e hlen
    rw [a, List.singleton_inj.mp b]
  · intro e
    obtain ⟨a, b⟩ := Prod.mk.inj e
    rw [a, b]

end InsertLabel
/-! ## Dual total correlation and a variable rendering the groups conditionally independent -/

section Chain
open Dit.Lemmas.InfoAlg

variable {R : Type} [CommRing R] [LinearOrder R] [IsStrictOrderedRing R] {H : VSet → R}

theorem vunion_nil_right (a : VSet) : vunion a [] = vnorm a := by
  unfold vunion; rw [List.append_nil]

/-- If every group is independent of the other groups given `W`
(`H(Xᵢ | X₋ᵢ, W) = H(Xᵢ | W)`), the dual total correlation is at most `H(W | ∅)`:
`B = H(X) − Σ H(Xᵢ|X₋ᵢ) ≤ H(X) − Σ H(Xᵢ|W) ≤ H(X) − H(X|W) = I(X:W) ≤ H(W)`. -/
theorem dtc_le_of_cond_indep (h : Submod H) (groups : List VSet) (W : VSet)
    (hCI : ∀ g ∈ groups,
      Hc H g (vunion (vdiff (vunions groups) (vnorm g)) W) = Hc H g W) :
    Hc H (vunions groups) []
        - (groups.map (fun g => Hc H g (vunion (vdiff (vunions groups) (vnorm g)) []))).sum
      ≤ Hc H W [] := by
  have s1 : (groups.map (fun g => Hc H g W)).sum
      ≤ (groups.map (fun g => Hc H g (vunion (vdiff (vunions groups) (vnorm g)) []))).sum := by
    apply List.sum_le_sum
    intro g hg
    rw [← hCI g hg]
    apply Hc_anti h
    intro x hx
    rw [mem_vunion] at hx ⊢
    rcases hx with hx | hx
    · exact Or.inl hx
    · simp at hx
  have s2 := tc_sum_nonneg h groups W
  have s3 := Hc_nonneg h W (vunions groups)
  have e : vunion W (vunions groups) = vunion (vunions groups) W :=
    vunion_congr (by intro x; tauto)
  have a1 : Hc H (vunions groups) [] = H (vnorm (vunions groups)) - H (vnorm []) := by
    unfold Hc; rw [vunion_nil_right]
  have a2 : Hc H W [] = H (vnorm W) - H (vnorm []) := by
    unfold Hc; rw [vunion_nil_right]
  have a3 : Hc H (vunions groups) W = H (vunion (vunions groups) W) - H (vnorm W) := rfl
  have a4 : Hc H W (vunions groups)
      = H (vunion (vunions groups) W) - H (vnorm (vunions groups)) := by
    unfold Hc; rw [e]
  rw [a1, a2]; rw [a3] at s2; rw [a4] at s3
  linarith

end Chain
end Dit.Lemmas.Meet
