/-
Helper lemmas for C03 (`condition_on` / `joint_from_factors`): event weights under `filter`,
`map`, `flatMap` and scaling; the conditional table `condTab` (a name for the inner table of
`Dist.conditionOn`, equal to it by `rfl`); `interleave`.  Property theorems: Props/C03.lean.
-/
import DitModel.Lemmas.Table
import DitModel.Props.C02
import Mathlib.Algebra.Field.Basic
import Mathlib.Algebra.BigOperators.Ring.List

set_option linter.unusedSectionVars false

namespace Dit.Lemmas.Cond
open Dit Dit.Lemmas.Table

/-! ## Event weights: `filter`, `map`, `flatMap`, scaling -/

section WtMonoid
variable {κ κ' ι α : Type} [AddCommMonoid α]

/-- Keeping the rows whose key satisfies `q` restricts every event to `q`. -/
theorem wtBy_filter_key (p q : κ → Prop) [DecidablePred p] [DecidablePred q] (t : Tab κ α) :
    wtBy p (t.filter (fun r => decide (q r.1))) = wtBy (fun k => p k ∧ q k) t := by
  induction t with
  | nil => rfl
  | cons r t ih =>
    rw [List.filter_cons]
    by_cases hq : q r.1
    · simp only [hq, decide_true, if_true, wtBy_cons, ih, and_true]
    · simp only [hq, decide_false, Bool.false_eq_true, if_false, wtBy_cons, ih, and_false,
        zero_add]

/-- Renaming the keys along `g` (values kept) pulls events back along `g`. -/
theorem wtBy_map_key (p : κ' → Prop) [DecidablePred p] (g : κ → κ') (t : Tab κ α) :
    wtBy p (t.map (fun r => (g r.1, r.2))) = wtBy (fun k => p (g k)) t := by
  simp [wtBy, Function.comp_def]

/-- The weight of an event in a concatenation of tables is the sum of the weights. -/
theorem wtBy_flatMap (p : κ → Prop) [DecidablePred p] (l : List ι) (F : ι → Tab κ α) :
    wtBy p (l.flatMap F) = (l.map (fun x => wtBy p (F x))).sum := by
  induction l with
  | nil => rfl
  | cons x l ih => rw [List.flatMap_cons, wtBy_append, ih, List.map_cons, List.sum_cons]

theorem wtBy_congr_fun (p : κ → Prop) [DecidablePred p] (q : κ → Prop) [DecidablePred q]
    (t : Tab κ α) (h : ∀ k, p k ↔ q k) : wtBy p t = wtBy q t :=
  wtBy_congr p q t (fun k _ => h k)

/-- Sum, over a duplicate-free list `l`, of the weights of the parts of `q` lying in the fibres
of `f`: the weight of the part of `q` whose image lies in `l`. -/
theorem sum_map_wtBy_fibre_and [DecidableEq κ'] {l : List κ'} (hl : l.Nodup) (f : κ → κ')
    (q : κ → Prop) [DecidablePred q] (t : Tab κ α) :
    (l.map (fun x => wtBy (fun k => f k = x ∧ q k) t)).sum
      = wtBy (fun k => q k ∧ f k ∈ l) t := by
  induction t with
  | nil => simp
  | cons r t ih =>
    have e : (fun x => wtBy (fun k => f k = x ∧ q k) (r :: t))
        = fun x => (if f r.1 = x then (if q r.1 then r.2 else 0) else 0)
            + wtBy (fun k => f k = x ∧ q k) t := by
      funext x
      rw [wtBy_cons]
      by_cases hq : q r.1 <;> by_cases hx : f r.1 = x <;> simp [hq, hx]
    rw [e, List.sum_map_add, ih, wtBy_cons]
    congr 1
    by_cases hr : f r.1 ∈ l
    · rw [sum_map_ite_eq_of_nodup hl hr (fun _ => if q r.1 then r.2 else 0)]
      by_cases hq : q r.1 <;> simp [hq, hr]
    · have : (l.map (fun x => if f r.1 = x then (if q r.1 then r.2 else 0) else 0)).sum = 0 := by
        apply List.sum_eq_zero
        intro z hz
        rcases List.mem_map.mp hz with ⟨x, hx, rfl⟩
        have : f r.1 ≠ x := fun e => hr (e ▸ hx)
        simp [this]
      rw [this]; simp [hr]

end WtMonoid

section WtSemiring
variable {κ κ' α : Type} [Semiring α]

/-- Scaling every value on the right scales every event weight. -/
theorem wtBy_map_mul_right (p : κ → Prop) [DecidablePred p] (a : α) (t : Tab κ α) :
    wtBy p (t.map (fun r => (r.1, r.2 * a))) = wtBy p t * a := by
  induction t with
  | nil => simp
  | cons r t ih =>
    rw [List.map_cons, wtBy_cons, wtBy_cons, ih, add_mul]
    by_cases h : p r.1 <;> simp [h]

/-- Renaming keys along `g` and scaling on the left. -/
theorem wtBy_map_key_mul_left (p : κ' → Prop) [DecidablePred p] (g : κ → κ') (a : α)
    (t : Tab κ α) :
    wtBy p (t.map (fun r => (g r.1, a * r.2))) = a * wtBy (fun k => p (g k)) t := by
  induction t with
  | nil => simp
  | cons r t ih =>
    rw [List.map_cons, wtBy_cons, wtBy_cons, ih, mul_add]
    by_cases h : p (g r.1) <;> simp [h]

end WtSemiring

/-! ## The conditional table of `condition_on` -/

section CondTab
variable {σ α : Type} [DecidableEq σ] [Field α]

/-- The un-trimmed conditional table for the stored conditioning row `c = (outcome, P(c))`:
the rows of the (sparse) joint table `ds` that agree with `c` on `cidx`, divided by `P(c)` and
pushed forward to the kept variables `idx`.  (Proof device: a name for the local `t` inside
`Dist.conditionOn`; see `conditionOn_conds`.) -/
def condTab (cidx idx : List Nat) (ds : Tab (List σ) α) (c : List σ × α) : Tab (List σ) α :=
  pushforward (project idx)
    ((ds.filter (fun r => project cidx r.1 = c.1)).map (fun r => (r.1, r.2 * c.2⁻¹)))

/-- The conditional distribution built from `condTab` (the body of the `map` in
`Dist.conditionOn`). -/
def condDist (cfg : NumCfg α) (d rdist : Dist σ α) (cidx idx : List Nat) (c : List σ × α) :
    Dist σ α :=
  let t := condTab cidx idx (d.makeSparse cfg true).tab c
  let dd : Dist σ α :=
    { space := rdist.space, tab := rdist.tab.map (fun r => (r.1, lookupD 0 t r.1)),
      sparse := d.sparse, base := d.base }
  if d.sparse then dd.makeSparse cfg true else dd.makeDense

theorem conditionOn_cdist (cfg : NumCfg α) (outLt : List σ → List σ → Bool) (d : Dist σ α)
    (cidx idx : List Nat) :
    (d.conditionOn cfg outLt cidx idx).cdist = (d.makeSparse cfg true).marginal cfg outLt cidx :=
  rfl

/-- `conditionOn` maps `condDist` over the stored rows of the conditioning marginal. -/
theorem conditionOn_conds (cfg : NumCfg α) (outLt : List σ → List σ → Bool) (d : Dist σ α)
    (cidx idx : List Nat) :
    (d.conditionOn cfg outLt cidx idx).conds
      = ((d.makeSparse cfg true).marginal cfg outLt cidx).tab.map
          (condDist cfg d ((d.makeSparse cfg true).marginal cfg outLt idx) cidx idx) :=
  rfl

/-- Event weights of the conditional table: the joint weight of "agrees with `c` on `cidx` and
projects into `p` on `idx`", divided by `P(c)`. -/
theorem wtBy_condTab (p : List σ → Prop) [DecidablePred p] (cidx idx : List Nat)
    (ds : Tab (List σ) α) (c : List σ × α) :
    wtBy p (condTab cidx idx ds c)
      = wtBy (fun o => p (project idx o) ∧ project cidx o = c.1) ds * c.2⁻¹ := by
  unfold condTab
  rw [wtBy_pushforward, wtBy_map_mul_right,
    wtBy_filter_key _ (fun k => project cidx k = c.1)]

/-- Stored value of the conditional table: `P(c, r) / P(c)`. -/
theorem lookupD_condTab (cidx idx : List Nat) (ds : Tab (List σ) α) (c : List σ × α)
    (r : List σ) :
    lookupD 0 (condTab cidx idx ds c) r
      = wtBy (fun o => project cidx o = c.1 ∧ project idx o = r) ds * c.2⁻¹ := by
  unfold condTab
  rw [lookupD_pushforward, wtBy_map_mul_right,
    wtBy_filter_key _ (fun k => project cidx k = c.1)]
  congr 1
  exact wtBy_congr_fun _ _ _ (fun k => and_comm)

theorem keys_condTab_nodup (cidx idx : List Nat) (ds : Tab (List σ) α) (c : List σ × α) :
    (keys (condTab cidx idx ds c)).Nodup :=
  keys_pushforward_nodup _ _

/-- The conditional table stores exactly the `idx`-projections of the rows agreeing with `c`. -/
theorem mem_keys_condTab (cidx idx : List Nat) (ds : Tab (List σ) α) (c : List σ × α)
    (r : List σ) :
    r ∈ keys (condTab cidx idx ds c)
      ↔ ∃ k ∈ keys ds, project cidx k = c.1 ∧ project idx k = r := by
  unfold condTab
  rw [mem_keys_pushforward]
  constructor
  · rintro ⟨k, hk, rfl⟩
    obtain ⟨v, hv⟩ := mem_keys.mp hk
    rcases List.mem_map.mp hv with ⟨x, hx, e⟩
    have hx' := List.mem_filter.mp hx
    have e1 : x.1 = k := by injection e
    subst e1
    exact ⟨x.1, mem_keys_of_mem hx'.1, by simpa using hx'.2, rfl⟩
  · rintro ⟨k, hk, hc, rfl⟩
    obtain ⟨v, hv⟩ := mem_keys.mp hk
    refine ⟨k, mem_keys.mpr ⟨v * c.2⁻¹, ?_⟩, rfl⟩
    exact List.mem_map.mpr ⟨(k, v), List.mem_filter.mpr ⟨hv, by simpa using hc⟩, rfl⟩

/-- **Chain rule on the table.** `P(c) · P(r|c) = P(c, r)` whenever `P(c) ≠ 0`. -/
theorem condTab_chain (cidx idx : List Nat) (ds : Tab (List σ) α) (c : List σ × α)
    (hc : c.2 ≠ 0) (r : List σ) :
    c.2 * lookupD 0 (condTab cidx idx ds c) r
      = wtBy (fun o => project cidx o = c.1 ∧ project idx o = r) ds := by
  rw [lookupD_condTab, mul_comm, mul_assoc, inv_mul_cancel₀ hc, mul_one]

/-- **Normalisation on the table.** If `P(c)` is the fibre sum of `c` and non-zero, the
conditional table has total mass one. -/
theorem condTab_mass (cidx idx : List Nat) (ds : Tab (List σ) α) (c : List σ × α)
    (hc : c.2 ≠ 0) (hpc : c.2 = wtBy (fun o => project cidx o = c.1) ds) :
    mass (condTab cidx idx ds c) = 1 := by
  rw [← wtBy_true, wtBy_condTab]
  have : wtBy (fun o => True ∧ project cidx o = c.1) ds = c.2 := by
    rw [hpc]; exact wtBy_congr_fun _ _ _ (fun k => by simp)
  rw [this, mul_inv_cancel₀ hc]

end CondTab

/-! ## The conditional distribution value -/

section CondDist
variable {σ α : Type} [DecidableEq σ] [Field α]

/-- Lookup in a table re-tabulated over the keys of `l`. -/
theorem lookupD_map_keys {κ β : Type} [DecidableEq κ] (z : α) (l : Tab κ β) (F : κ → α) (k : κ) :
    lookupD z (l.map (fun r => (r.1, F r.1))) k = if k ∈ keys l then F k else z := by
  have : l.map (fun r => (r.1, F r.1)) = (keys l).map (fun o => (o, F o)) := by
    simp [keys, Function.comp_def]
  rw [this]; unfold lookupD; rw [lookup?_map_graph]
  split <;> rfl

theorem keys_map_keys {κ β : Type} (l : Tab κ β) (F : κ → α) :
    keys (l.map (fun r => (r.1, F r.1))) = keys l := by
  simp [keys, Function.comp_def]

variable (cfg : NumCfg α) (d rdist : Dist σ α) (cidx idx : List Nat) (c : List σ × α)

theorem condDist_base : (condDist cfg d rdist cidx idx c).base = d.base := by
  unfold condDist; cases d.sparse <;> rfl

theorem condDist_sparse : (condDist cfg d rdist cidx idx c).sparse = d.sparse := by
  unfold condDist; cases h : d.sparse <;> rfl

theorem condDist_space : (condDist cfg d rdist cidx idx c).space = rdist.space := by
  unfold condDist; cases d.sparse <;> rfl

theorem condDist_get_none (o : List σ) (ho : o ∉ rdist.space.toList) :
    (condDist cfg d rdist cidx idx c).get o = none := by
  rw [get_eq, condDist_space]; simp [ho]

/-- Dense source: the conditional answers, for a member of the sample space, the stored value
of the conditional table if the outcome is stored in the `idx`-marginal, and zero otherwise. -/
theorem condDist_get_dense (hd : d.sparse = false) (o : List σ) (ho : o ∈ rdist.space.toList) :
    (condDist cfg d rdist cidx idx c).get o
      = some (if o ∈ keys rdist.tab
                then lookupD 0 (condTab cidx idx (d.makeSparse cfg true).tab c) o else 0) := by
  unfold condDist
  simp only [hd, Bool.false_eq_true, if_false]
  rw [get_makeDense, get_eq]
  simp only [ho, if_true]
  rw [lookupD_map_keys]
  by_cases hk : o ∈ keys rdist.tab
  · rw [if_pos hk, if_pos hk]
  · rw [if_neg hk, if_neg hk]

/-- Sparse source: as the dense case, but a stored null value is trimmed and reads as zero. -/
theorem condDist_get_sparse (hd : d.sparse = true) (hnd : (keys rdist.tab).Nodup) (o : List σ)
    (ho : o ∈ rdist.space.toList) :
    (condDist cfg d rdist cidx idx c).get o
      = some (if o ∈ keys rdist.tab then
                (if cfg.isNull d.base
                      (lookupD 0 (condTab cidx idx (d.makeSparse cfg true).tab c) o) = true
                  then 0 else lookupD 0 (condTab cidx idx (d.makeSparse cfg true).tab c) o)
              else 0) := by
  unfold condDist
  simp only [hd, if_true]
  rw [get_makeSparse_trim cfg _ (by rw [keys_map_keys]; exact hnd)]
  simp only [ho, if_true, keys_map_keys, lookupD_map_keys]
  by_cases hk : o ∈ keys rdist.tab <;> simp [hk]

/-- Dense source: the stored table of the conditional lists the whole sample space. -/
theorem condDist_tab_dense (hd : d.sparse = false) :
    (condDist cfg d rdist cidx idx c).tab
      = rdist.space.toList.map (fun o => (o,
          if o ∈ keys rdist.tab
            then lookupD 0 (condTab cidx idx (d.makeSparse cfg true).tab c) o else 0)) := by
  unfold condDist
  simp only [hd, Bool.false_eq_true, if_false]
  show rdist.space.toList.map _ = _
  apply List.map_congr_left
  intro o _
  rw [lookupD_map_keys]
  by_cases hk : o ∈ keys rdist.tab
  · rw [if_pos hk, if_pos hk]
  · rw [if_neg hk, if_neg hk]

/-- Sparse source: the stored table is the re-tabulation over the `idx`-marginal's stored
outcomes with the null values dropped. -/
theorem condDist_tab_sparse (hd : d.sparse = true) :
    (condDist cfg d rdist cidx idx c).tab
      = (rdist.tab.map (fun r => (r.1,
            lookupD 0 (condTab cidx idx (d.makeSparse cfg true).tab c) r.1))).filter
          (fun r => !cfg.isNull d.base r.2) := by
  unfold condDist
  simp only [hd, if_true]
  rfl

/-- Mass of the re-tabulated (un-trimmed) conditional row: it is the mass of the conditional
table as soon as every outcome that table stores is a stored outcome of the `idx`-marginal. -/
theorem mass_retab (t : Tab (List σ) α) (hnd : (keys rdist.tab).Nodup)
    (hsub : ∀ k ∈ keys t, k ∈ keys rdist.tab) (ht : (keys t).Nodup) :
    mass (rdist.tab.map (fun r => (r.1, lookupD 0 t r.1))) = mass t := by
  have e : rdist.tab.map (fun r => (r.1, lookupD 0 t r.1))
      = (keys rdist.tab).map (fun o => (o, lookupD 0 t o)) := by
    simp [keys, Function.comp_def]
  rw [e, ← wtBy_true, wtBy_map_graph]
  simp only [if_true]
  rw [← sum_map_wtBy_singleton hnd t hsub]
  apply congrArg
  apply List.map_congr_left
  intro o _
  exact lookupD_eq_wtBy ht o

end CondDist

/-! ## `interleave` -/

section Interleave
variable {σ : Type}

@[simp] theorem interleave_nil (x y : List σ) : interleave [] x y = [] := by
  unfold interleave; rfl

theorem interleave_true_cons (m : List Bool) (a : σ) (x y : List σ) :
    interleave (true :: m) (a :: x) y = a :: interleave m x y := by
  rw [interleave]

theorem interleave_true_nil (m : List Bool) (y : List σ) :
    interleave (true :: m) [] y = interleave m [] y := by
  rw [interleave]

theorem interleave_false_cons (m : List Bool) (b : σ) (x y : List σ) :
    interleave (false :: m) x (b :: y) = b :: interleave m x y := by
  rw [interleave]

theorem interleave_false_nil (m : List Bool) (x : List σ) :
    interleave (false :: m) x [] = interleave m x [] := by
  rw [interleave]

/-- **Variable order restored (general form).** Split the valid positions `u` by any predicate
`P`; interleaving the projections onto the two parts along the mask `u.map P` is the
projection onto `u`. -/
theorem interleave_project_filter (P : Nat → Bool) (u : List Nat) (o : List σ)
    (h : ∀ i ∈ u, i < o.length) :
    interleave (u.map P) (project (u.filter P) o) (project (u.filter (fun i => !P i)) o)
      = project u o := by
  induction u with
  | nil => simp [project]
  | cons i u ih =>
    have hi : i < o.length := h i (by simp)
    have ih' := ih (fun j hj => h j (List.mem_cons_of_mem _ hj))
    rw [List.map_cons, List.filter_cons, List.filter_cons, project_cons i u,
      List.getElem?_eq_getElem hi]
    cases hP : P i with
    | true =>
      simp only [if_true, Bool.not_true, Bool.false_eq_true, if_false]
      rw [project_cons, List.getElem?_eq_getElem hi]
      simp only
      rw [interleave_true_cons, ih']
    | false =>
      simp only [Bool.false_eq_true, if_false, Bool.not_false, if_true]
      rw [project_cons, List.getElem?_eq_getElem hi]
      simp only
      rw [interleave_false_cons, ih']

/-- **Variable order restored.** If `u` lists the positions of `cidx` and `idx` together,
keeping the order inside each (`u.filter (· ∈ cidx) = cidx`, the rest is `idx`), then
interleaving the `cidx`- and the `idx`-projection of an outcome along the mask
`u.map (· ∈ cidx)` gives its projection onto `u`. -/
theorem interleave_project (cidx idx u : List Nat) (o : List σ)
    (hu1 : u.filter (fun i => decide (i ∈ cidx)) = cidx)
    (hu2 : u.filter (fun i => !decide (i ∈ cidx)) = idx)
    (h : ∀ i ∈ u, i < o.length) :
    interleave (u.map (fun i => decide (i ∈ cidx))) (project cidx o) (project idx o)
      = project u o := by
  have := interleave_project_filter (fun i => decide (i ∈ cidx)) u o h
  rw [hu1, hu2] at this
  exact this

/-- The sorted merge of two strictly increasing, disjoint index lists splits back into them. -/
theorem merge_filter (cidx idx : List Nat) (hc : cidx.Pairwise (· < ·)) (hi : idx.Pairwise (· < ·))
    (hdis : ∀ i ∈ cidx, i ∉ idx) :
    (isort (fun a b => decide (a < b)) (cidx ++ idx)).filter (fun i => decide (i ∈ cidx)) = cidx
      ∧ (isort (fun a b => decide (a < b)) (cidx ++ idx)).filter (fun i => !decide (i ∈ cidx))
          = idx := by
  have hs := isort_nat_sorted (cidx ++ idx)
  have hp := isort_perm (fun a b => decide (a < b)) (cidx ++ idx)
  have anti : ∀ (l₁ l₂ : List Nat) (a b : Nat), a ∈ l₁ → b ∈ l₂ → a ≤ b → b ≤ a → a = b :=
    fun _ _ a b _ _ h1 h2 => Nat.le_antisymm h1 h2
  constructor
  · apply List.Perm.eq_of_pairwise (le := (· ≤ ·)) (anti _ _) (hs.sublist List.filter_sublist)
      (hc.imp Nat.le_of_lt)
    refine (hp.filter _).trans ?_
    rw [List.filter_append]
    have e1 : cidx.filter (fun i => decide (i ∈ cidx)) = cidx :=
      List.filter_eq_self.mpr (fun a ha => by simpa using ha)
    have e2 : idx.filter (fun i => decide (i ∈ cidx)) = [] :=
      List.filter_eq_nil_iff.mpr (fun a ha => by
        simp only [decide_eq_true_eq]; intro hc'; exact hdis a hc' ha)
    rw [e1, e2, List.append_nil]
  · apply List.Perm.eq_of_pairwise (le := (· ≤ ·)) (anti _ _) (hs.sublist List.filter_sublist)
      (hi.imp Nat.le_of_lt)
    refine (hp.filter _).trans ?_
    rw [List.filter_append]
    have e1 : cidx.filter (fun i => !decide (i ∈ cidx)) = [] :=
      List.filter_eq_nil_iff.mpr (fun a ha => by simpa using ha)
    have e2 : idx.filter (fun i => !decide (i ∈ cidx)) = idx :=
      List.filter_eq_self.mpr (fun a ha => by
        simp only [Bool.not_eq_true', decide_eq_false_iff_not]
        intro hc'; exact hdis a hc' ha)
    rw [e1, e2, List.nil_append]

/-- `interleave` loses nothing when the mask has room for both arguments: on pairs of equal
lengths not exceeding the numbers of `true`s / `false`s of the mask it is injective. -/
theorem interleave_injective (mask : List Bool) (x x' y y' : List σ)
    (hx : x.length = x'.length) (hy : y.length = y'.length)
    (hxm : x.length ≤ mask.count true) (hym : y.length ≤ mask.count false)
    (h : interleave mask x y = interleave mask x' y') : x = x' ∧ y = y' := by
  induction mask generalizing x x' y y' with
  | nil =>
    simp only [List.count_nil, Nat.le_zero, List.length_eq_zero_iff] at hxm hym
    subst hxm; subst hym
    simp only [List.length_nil] at hx hy
    exact ⟨(List.length_eq_zero_iff.mp hx.symm).symm, (List.length_eq_zero_iff.mp hy.symm).symm⟩
  | cons b m ih =>
    cases b with
    | true =>
      have hcf : (true :: m).count false = m.count false := by simp
      have hct : (true :: m).count true = m.count true + 1 := by simp
      rw [hcf] at hym; rw [hct] at hxm
      cases x with
      | nil =>
        cases x' with
        | nil =>
          rw [interleave_true_nil, interleave_true_nil] at h
          exact ih [] [] y y' rfl hy (by simp) hym h
        | cons a' xs' => simp at hx
      | cons a xs =>
        cases x' with
        | nil => simp at hx
        | cons a' xs' =>
          rw [interleave_true_cons, interleave_true_cons] at h
          injection h with h1 h2
          have := ih xs xs' y y' (by simpa using hx) hy (by simpa using hxm) hym h2
          exact ⟨by rw [h1, this.1], this.2⟩
    | false =>
      have hcf : (false :: m).count false = m.count false + 1 := by simp
      have hct : (false :: m).count true = m.count true := by simp
      rw [hcf] at hym; rw [hct] at hxm
      cases y with
      | nil =>
        cases y' with
        | nil =>
          rw [interleave_false_nil, interleave_false_nil] at h
          exact ih x x' [] [] hx rfl hxm (by simp) h
        | cons b' ys' => simp at hy
      | cons b ys =>
        cases y' with
        | nil => simp at hy
        | cons b' ys' =>
          rw [interleave_false_cons, interleave_false_cons] at h
          injection h with h1 h2
          have := ih x x' ys ys' hx (by simpa using hy) hxm (by simpa using hym) h2
          exact ⟨this.1, by rw [h1, this.2]⟩

theorem count_true_map_mem (cidx u : List Nat) :
    (u.map (fun i => decide (i ∈ cidx))).count true
      = (u.filter (fun i => decide (i ∈ cidx))).length := by
  rw [List.count_eq_countP, List.countP_map, List.countP_eq_length_filter]
  congr 1
  apply List.filter_congr
  intro a _; simp

theorem count_false_map_mem (cidx u : List Nat) :
    (u.map (fun i => decide (i ∈ cidx))).count false
      = (u.filter (fun i => !decide (i ∈ cidx))).length := by
  rw [List.count_eq_countP, List.countP_map, List.countP_eq_length_filter]
  congr 1
  apply List.filter_congr
  intro a _; simp

end Interleave

/-! ## `jointFromFactors` -/

section JFF
variable {σ α : Type} [DecidableEq σ]

theorem jff_nil_left [Mul α] (mask : List Bool) (cs : List (Tab (List σ) α)) :
    jointFromFactors mask ([] : Tab (List σ) α) cs = [] := by
  simp [jointFromFactors]

theorem jff_nil_right [Mul α] (mask : List Bool) (m : Tab (List σ) α) :
    jointFromFactors mask m ([] : List (Tab (List σ) α)) = [] := by
  simp [jointFromFactors]

theorem jff_cons [Mul α] (mask : List Bool) (r : List σ × α) (m : Tab (List σ) α)
    (t : Tab (List σ) α) (cs : List (Tab (List σ) α)) :
    jointFromFactors mask (r :: m) (t :: cs)
      = t.map (fun s => (interleave mask r.1 s.1, r.2 * s.2)) ++ jointFromFactors mask m cs := by
  simp [jointFromFactors]

/-- **Event weights of the recombined table.** Row `i` of the marginal contributes its value
times the weight, in the `i`-th conditional table, of the outcomes `y` whose interleaving with
the row's outcome lies in the event. -/
theorem wtBy_jff [Semiring α] (p : List σ → Prop) [DecidablePred p] (mask : List Bool)
    (m : Tab (List σ) α) (cs : List (Tab (List σ) α)) :
    wtBy p (jointFromFactors mask m cs)
      = ((m.zip cs).map (fun mc =>
          mc.1.2 * wtBy (fun y => p (interleave mask mc.1.1 y)) mc.2)).sum := by
  unfold jointFromFactors
  rw [wtBy_flatMap]
  apply congrArg
  apply List.map_congr_left
  intro mc _
  exact wtBy_map_key_mul_left p (interleave mask mc.1.1) mc.1.2 mc.2

theorem mem_keys_jff [Mul α] (mask : List Bool) (m : Tab (List σ) α)
    (cs : List (Tab (List σ) α)) (z : List σ) :
    z ∈ keys (jointFromFactors mask m cs)
      ↔ ∃ mc ∈ m.zip cs, ∃ y ∈ keys mc.2, interleave mask mc.1.1 y = z := by
  unfold jointFromFactors keys
  simp only [List.mem_map, List.mem_flatMap]
  constructor
  · rintro ⟨a, ⟨mc, hmc, s, hs, rfl⟩, rfl⟩
    exact ⟨mc, hmc, s.1, ⟨s, hs, rfl⟩, rfl⟩
  · rintro ⟨mc, hmc, y, ⟨s, hs, rfl⟩, rfl⟩
    exact ⟨_, ⟨mc, hmc, s, hs, rfl⟩, rfl⟩

/-- The recombined table lists each outcome once when the marginal and every conditional do
and the mask has room for the outcomes (so that `interleave` is injective). -/
theorem jff_keys_nodup [Semiring α] (mask : List Bool) (m : Tab (List σ) α)
    (cs : List (Tab (List σ) α)) (a b : Nat)
    (hm : (keys m).Nodup) (hcs : ∀ t ∈ cs, (keys t).Nodup)
    (hma : ∀ x ∈ keys m, x.length = a) (hcb : ∀ t ∈ cs, ∀ y ∈ keys t, y.length = b)
    (ha : a ≤ mask.count true) (hb : b ≤ mask.count false) :
    (keys (jointFromFactors mask m cs)).Nodup := by
  induction m generalizing cs with
  | nil => rw [jff_nil_left]; exact List.nodup_nil
  | cons r m ih =>
    cases cs with
    | nil => rw [jff_nil_right]; exact List.nodup_nil
    | cons t cs =>
      rw [jff_cons, keys_append]
      rw [keys_cons, List.nodup_cons] at hm
      have hra : r.1.length = a := hma r.1 (by simp)
      refine List.nodup_append.mpr ⟨?_, ?_, ?_⟩
      · have : keys (t.map (fun s => (interleave mask r.1 s.1, r.2 * s.2)))
            = (keys t).map (interleave mask r.1) := by
          simp [keys, Function.comp_def]
        rw [this]
        refine (hcs t (by simp)).map_on ?_
        intro y hy y' hy' e
        have hyb := hcb t (by simp) y hy
        have hyb' := hcb t (by simp) y' hy'
        exact (interleave_injective mask r.1 r.1 y y' rfl (by rw [hyb, hyb'])
          (by rw [hra]; exact ha) (by rw [hyb]; exact hb) e).2
      · exact ih cs hm.2 (fun t' ht' => hcs t' (List.mem_cons_of_mem _ ht'))
          (fun x hx => hma x (by simp [hx]))
          (fun t' ht' => hcb t' (List.mem_cons_of_mem _ ht'))
      · intro z hz1 z' hz2 e
        subst e
        have hz1' : ∃ y ∈ keys t, interleave mask r.1 y = z := by
          simp only [keys, List.mem_map] at hz1 ⊢
          rcases hz1 with ⟨a', ⟨s, hs, rfl⟩, rfl⟩
          exact ⟨s.1, ⟨s, hs, rfl⟩, rfl⟩
        obtain ⟨y, hy, e1⟩ := hz1'
        obtain ⟨mc, hmc, y', hy', e2⟩ := (mem_keys_jff mask m cs z).mp hz2
        have hmc1 : mc.1 ∈ m := (List.of_mem_zip (show (mc.1, mc.2) ∈ m.zip cs from hmc)).1
        have hmc2 : mc.2 ∈ cs := (List.of_mem_zip (show (mc.1, mc.2) ∈ m.zip cs from hmc)).2
        have hx' : mc.1.1.length = a := hma _ (by simp [mem_keys_of_mem hmc1])
        have hyb := hcb t (by simp) y hy
        have hyb' := hcb mc.2 (List.mem_cons_of_mem _ hmc2) y' hy'
        have := (interleave_injective mask r.1 mc.1.1 y y' (by rw [hra, hx'])
          (by rw [hyb, hyb']) (by rw [hra]; exact ha) (by rw [hyb]; exact hb)
          (e1.trans e2.symm)).1
        exact hm.1 (this ▸ mem_keys_of_mem hmc1)

theorem zip_map_self {β γ : Type} (l : List β) (g : β → γ) :
    l.zip (l.map g) = l.map (fun x => (x, g x)) := by
  induction l with
  | nil => rfl
  | cons x l ih => simp [ih]

/-- **Recombination (table level).** Recombining a marginal table `m` (duplicate-free keys,
non-zero values) with the conditional tables `condTab` built from a joint table `ds` gives, for
every event of the union variables, the joint weight of that event restricted to the
conditioning outcomes listed in `m`. -/
theorem wtBy_jff_condTab [Field α] (p : List σ → Prop) [DecidablePred p] (u cidx idx : List Nat)
    (ds : Tab (List σ) α) (m : Tab (List σ) α) (hm : (keys m).Nodup) (hne : ∀ c ∈ m, c.2 ≠ 0)
    (hu1 : u.filter (fun i => decide (i ∈ cidx)) = cidx)
    (hu2 : u.filter (fun i => !decide (i ∈ cidx)) = idx)
    (hlen : ∀ k ∈ keys ds, ∀ i ∈ u, i < k.length) :
    wtBy p (jointFromFactors (u.map (fun i => decide (i ∈ cidx))) m
        (m.map (condTab cidx idx ds)))
      = wtBy (fun o => p (project u o) ∧ project cidx o ∈ keys m) ds := by
  rw [wtBy_jff, zip_map_self, List.map_map]
  have step : ∀ c ∈ m,
      ((fun mc : (List σ × α) × Tab (List σ) α =>
          mc.1.2 * wtBy (fun y => p (interleave (u.map (fun i => decide (i ∈ cidx))) mc.1.1 y))
            mc.2) ∘ (fun x => (x, condTab cidx idx ds x))) c
        = wtBy (fun o => project cidx o = c.1 ∧ p (project u o)) ds := by
    intro c hc
    simp only [Function.comp]
    rw [wtBy_condTab, ← mul_assoc, mul_comm c.2, mul_assoc, mul_inv_cancel₀ (hne c hc), mul_one]
    apply wtBy_congr
    intro k hk
    constructor
    · rintro ⟨h1, h2⟩
      refine ⟨h2, ?_⟩
      rw [← h2, interleave_project cidx idx u k hu1 hu2 (hlen k hk)] at h1
      exact h1
    · rintro ⟨h2, h1⟩
      refine ⟨?_, h2⟩
      rw [← h2, interleave_project cidx idx u k hu1 hu2 (hlen k hk)]
      exact h1
  rw [List.map_congr_left step]
  have := sum_map_wtBy_fibre_and hm (project cidx) (fun o => p (project u o)) ds
  refine Eq.trans ?_ (this.trans ?_)
  · simp [keys, Function.comp_def]
  · congr

end JFF

/-! ## Stored rows of the two marginals used by `condition_on` -/

section Rows
variable {σ α : Type} [DecidableEq σ] [Field α]
open Dit.Props.C02

variable (cfg : NumCfg α) (outLt : List σ → List σ → Bool) (d : Dist σ α)

/-- A stored row of a marginal of the sparse copy: its value is the fibre sum of the non-null
stored rows, and that value is not null. -/
theorem sparse_marginal_row (g : List Nat) (c : List σ) (pc : α)
    (h : (c, pc) ∈ ((d.makeSparse cfg true).marginal cfg outLt g).tab) :
    pc = wtBy (fun k => project g k = c) (d.makeSparse cfg true).tab
      ∧ cfg.isNull d.base pc = false := by
  have hs := coalesce1_sparse cfg outLt (d.makeSparse cfg true) g rfl
  have h1 := hs.2.2.2 c pc h
  have h2 := ((hs.2.2.1 c).mp (mem_keys.mpr ⟨pc, h⟩)).2
  exact ⟨h1, by rw [h1]; exact h2⟩

theorem sparse_marginal_keys_nodup (g : List Nat) :
    (keys ((d.makeSparse cfg true).marginal cfg outLt g).tab).Nodup :=
  (coalesce1_sparse cfg outLt (d.makeSparse cfg true) g rfl).1

theorem mem_keys_sparse_marginal (g : List Nat) (o : List σ) :
    o ∈ keys ((d.makeSparse cfg true).marginal cfg outLt g).tab
      ↔ (∃ k ∈ keys (d.makeSparse cfg true).tab, project g k = o)
        ∧ cfg.isNull d.base (wtBy (fun k => project g k = o) (d.makeSparse cfg true).tab)
            = false :=
  (coalesce1_sparse cfg outLt (d.makeSparse cfg true) g rfl).2.2.1 o

/-- **The stored conditional has the event weights of the conditional table**, provided the
null test is exact (a null value is zero, so trimming loses nothing), every row agreeing with
`c` has a non-null `idx`-marginal (so its outcome is listed by the `idx`-marginal), and — for a
dense source — the stored outcomes lie in the sample space and the new sample space lists each
outcome once. -/
theorem wtBy_condDist_tab (cidx idx : List Nat) (c : List σ × α) (q : List σ → Prop)
    [DecidablePred q]
    (hex : ∀ x, cfg.isNull d.base x = true → x = 0)
    (hnn : ∀ k ∈ keys (d.makeSparse cfg true).tab, project cidx k = c.1 →
      cfg.isNull d.base
        (wtBy (fun o => project idx o = project idx k) (d.makeSparse cfg true).tab) = false)
    (hin : d.sparse = false → ∀ k ∈ keys (d.makeSparse cfg true).tab, k ∈ d.space.toList)
    (hsp : d.sparse = false → (d.space.extract outLt idx).toList.Nodup) :
    wtBy q (condDist cfg d ((d.makeSparse cfg true).marginal cfg outLt idx) cidx idx c).tab
      = wtBy q (condTab cidx idx (d.makeSparse cfg true).tab c) := by
  have hsub : ∀ o ∈ keys (condTab cidx idx (d.makeSparse cfg true).tab c),
      o ∈ keys ((d.makeSparse cfg true).marginal cfg outLt idx).tab := by
    intro o ho
    obtain ⟨k, hk, hkc, hko⟩ := (mem_keys_condTab _ _ _ _ _).mp ho
    rw [mem_keys_sparse_marginal]
    subst hko
    exact ⟨⟨k, hk, rfl⟩, hnn k hk hkc⟩
  have hnd := sparse_marginal_keys_nodup cfg outLt d idx
  have htnd := keys_condTab_nodup cidx idx (d.makeSparse cfg true).tab c
  cases hd : d.sparse with
  | false =>
    rw [condDist_tab_dense cfg d _ cidx idx c hd, wtBy_map_graph]
    have hspace : ((d.makeSparse cfg true).marginal cfg outLt idx).space
        = d.space.extract outLt idx := (coalesce1_meta cfg outLt (d.makeSparse cfg true) idx).2.2.1
    rw [hspace]
    rw [← sum_map_wtBy_fibre (hsp hd) (fun k : List σ => k) q
      (condTab cidx idx (d.makeSparse cfg true).tab c) (fun o ho => by
        obtain ⟨k, hk, _, hko⟩ := (mem_keys_condTab _ _ _ _ _).mp ho
        subst hko
        exact space_projection outLt d.space idx k (hin hd k hk))]
    apply congrArg
    apply List.map_congr_left
    intro o _
    by_cases hq : q o
    · simp only [hq, if_true]
      rw [← lookupD_eq_wtBy htnd o]
      by_cases hk : o ∈ keys ((d.makeSparse cfg true).marginal cfg outLt idx).tab
      · rw [if_pos hk]
      · rw [if_neg hk, lookupD_of_not_mem 0 (fun h => hk (hsub o h))]
    · simp only [hq, if_false]
  | true =>
    rw [condDist_tab_sparse cfg d _ cidx idx c hd]
    rw [wtBy_filter_of_zero q _ _ (fun r _ hr => hex r.2 (by simpa using hr))]
    have e : ((d.makeSparse cfg true).marginal cfg outLt idx).tab.map
          (fun r => (r.1, lookupD 0 (condTab cidx idx (d.makeSparse cfg true).tab c) r.1))
        = (keys ((d.makeSparse cfg true).marginal cfg outLt idx).tab).map
          (fun o => (o, lookupD 0 (condTab cidx idx (d.makeSparse cfg true).tab c) o)) := by
      simp [keys, Function.comp_def]
    rw [e, wtBy_map_graph]
    rw [← sum_map_wtBy_fibre hnd (fun k : List σ => k) q
      (condTab cidx idx (d.makeSparse cfg true).tab c) hsub]
    apply congrArg
    apply List.map_congr_left
    intro o _
    by_cases hq : q o
    · simp only [hq, if_true]
      exact lookupD_eq_wtBy htnd o
    · simp only [hq, if_false]

end Rows

section JFFCongr
variable {σ α ι : Type} [DecidableEq σ] [Semiring α]

/-- Recombination only depends on the event weights of the conditional tables. -/
theorem wtBy_jff_map_congr (p : List σ → Prop) [DecidablePred p] (mask : List Bool)
    (m : Tab (List σ) α) (g g' : List σ × α → Tab (List σ) α)
    (h : ∀ c ∈ m, ∀ (q : List σ → Prop) [DecidablePred q], wtBy q (g c) = wtBy q (g' c)) :
    wtBy p (jointFromFactors mask m (m.map g)) = wtBy p (jointFromFactors mask m (m.map g')) := by
  rw [wtBy_jff, wtBy_jff, zip_map_self, zip_map_self, List.map_map, List.map_map]
  apply congrArg
  apply List.map_congr_left
  intro c hc
  simp only [Function.comp]
  rw [h c hc]

end JFFCongr

/-! ## Example data for the non-vacuity examples of Props/C03.lean -/

section ExampleData

/-- Exact null test on `Rat`. -/
def cfgQ : NumCfg Rat := ⟨fun _ v => v == 0, fun _ v => v == 1, fun _ _ => true⟩

/-- `P(00) = P(01) = 1/4, P(10) = 1/2` on two binary variables, sparse. -/
def dQ : Dist Nat Rat :=
  ⟨.cart [[0, 1], [0, 1]], [([0, 0], 1 / 4), ([0, 1], 1 / 4), ([1, 0], 1 / 2)], true, .linear⟩

/-- The same distribution, dense (the zero is stored). -/
def dQdense : Dist Nat Rat :=
  ⟨.cart [[0, 1], [0, 1]], [([0, 0], 1 / 4), ([0, 1], 1 / 4), ([1, 0], 1 / 2), ([1, 1], 0)],
    false, .linear⟩

end ExampleData

end Dit.Lemmas.Cond
