/-
Helper lemmas about the table algebra of `Core/Table.lean` (and the list utilities of
`Core/Dist.lean`): event weights, `accum`/`pushforward` as a push-forward of measures,
`lookup?`, `sortBy`, `filter`, `dedup`, `isort`, `cartesian`, `project`.
Used by Props/C02.lean; written to be reusable by other properties.
-/
import DitModel.Core.Coalesce
import Mathlib.Algebra.BigOperators.Group.List.Basic
import Mathlib.Data.List.Forall2
import Mathlib.Data.List.Nodup
import Mathlib.Data.List.Perm.Basic

set_option linter.unusedSectionVars false

namespace Dit.Lemmas.Table
open Dit

/-! ## Sequential sums -/

section Sums
variable {κ α : Type} [AddCommMonoid α]

theorem foldl_add_eq (l : List α) (a : α) : l.foldl (· + ·) a = a + l.sum := by
  induction l generalizing a with
  | nil => simp
  | cons x l ih => simp [ih, add_assoc]

/-- The model's sequential sum is the list sum. -/
theorem lsum_eq_sum (l : List α) : lsum l = l.sum := by
  simp [lsum, foldl_add_eq]

theorem foldl_mass_eq (t : Tab κ α) (a : α) :
    t.foldl (fun s r => s + r.2) a = a + (vals t).sum := by
  induction t generalizing a with
  | nil => simp [vals]
  | cons x l ih =>
    simp only [vals, List.foldl_cons, List.map_cons, List.sum_cons] at ih ⊢
    rw [ih, add_assoc]

/-- The model's total mass is the sum of the stored values. -/
theorem mass_eq_sum (t : Tab κ α) : mass t = (vals t).sum := by
  simp [mass, foldl_mass_eq]

theorem mass_eq_lsum_vals (t : Tab κ α) : mass t = lsum (vals t) := by
  rw [mass_eq_sum, lsum_eq_sum]

end Sums

/-! ## Event weights -/

section Wt
variable {κ κ' α : Type} [AddCommMonoid α]

/-- Weight (probability) of the event `p`: sum of the values of the rows whose key satisfies
`p`. Rows with duplicate keys all count. -/
def wtBy (p : κ → Prop) [DecidablePred p] (t : Tab κ α) : α :=
  (t.map (fun r => if p r.1 then r.2 else 0)).sum

@[simp] theorem wtBy_nil (p : κ → Prop) [DecidablePred p] : wtBy p ([] : Tab κ α) = 0 := rfl

theorem wtBy_cons (p : κ → Prop) [DecidablePred p] (r : κ × α) (t : Tab κ α) :
    wtBy p (r :: t) = (if p r.1 then r.2 else 0) + wtBy p t := by
  simp [wtBy]

theorem wtBy_append (p : κ → Prop) [DecidablePred p] (s t : Tab κ α) :
    wtBy p (s ++ t) = wtBy p s + wtBy p t := by
  simp [wtBy]

theorem wtBy_perm (p : κ → Prop) [DecidablePred p] {s t : Tab κ α} (h : s.Perm t) :
    wtBy p s = wtBy p t :=
  (h.map _).sum_eq

theorem wtBy_congr (p q : κ → Prop) [DecidablePred p] [DecidablePred q] (t : Tab κ α)
    (h : ∀ k ∈ keys t, p k ↔ q k) : wtBy p t = wtBy q t := by
  induction t with
  | nil => rfl
  | cons r t ih =>
    rw [wtBy_cons, wtBy_cons, ih (fun k hk => h k (by simp [keys] at hk ⊢; exact Or.inr hk))]
    have := h r.1 (by simp [keys])
    by_cases hp : p r.1
    · simp [hp, this.mp hp]
    · have hq : ¬ q r.1 := fun hq => hp (this.mpr hq)
      simp [hp, hq]

/-- An event no stored key belongs to has weight zero. -/
theorem wtBy_eq_zero (p : κ → Prop) [DecidablePred p] (t : Tab κ α)
    (h : ∀ k ∈ keys t, ¬ p k) : wtBy p t = 0 := by
  induction t with
  | nil => rfl
  | cons r t ih =>
    rw [wtBy_cons, ih (fun k hk => h k (by simp [keys] at hk ⊢; exact Or.inr hk))]
    simp [h r.1 (by simp [keys])]

/-- The sure event has weight the total mass. -/
theorem wtBy_true (t : Tab κ α) : wtBy (fun _ => True) t = mass t := by
  rw [mass_eq_sum]; simp [wtBy, vals]

/-- Finite additivity: an event splits into its parts inside and outside `q`. -/
theorem wtBy_split (p q : κ → Prop) [DecidablePred p] [DecidablePred q] (t : Tab κ α) :
    wtBy p t = wtBy (fun k => p k ∧ q k) t + wtBy (fun k => p k ∧ ¬ q k) t := by
  induction t with
  | nil => simp
  | cons r t ih =>
    simp only [wtBy_cons]
    rw [ih]
    by_cases hp : p r.1 <;> by_cases hq : q r.1 <;> simp [hp, hq, add_assoc, add_left_comm]

end Wt

/-! ## Keys, `accum`, `pushforward` -/

section Push
variable {κ κ' α : Type} [DecidableEq κ] [DecidableEq κ'] [AddCommMonoid α]

@[simp] theorem keys_nil : keys ([] : Tab κ α) = [] := rfl
@[simp] theorem keys_cons (r : κ × α) (t : Tab κ α) : keys (r :: t) = r.1 :: keys t := rfl
theorem keys_append (s t : Tab κ α) : keys (s ++ t) = keys s ++ keys t := by simp [keys]
theorem mem_keys {t : Tab κ α} {k : κ} : k ∈ keys t ↔ ∃ v, (k, v) ∈ t := by
  simp [keys]
theorem mem_keys_of_mem {t : Tab κ α} {r : κ × α} (h : r ∈ t) : r.1 ∈ keys t :=
  List.mem_map_of_mem h

/-- `d[k] += v` adds `v` to the weight of every event containing `k` and to no other. -/
theorem wtBy_accum (p : κ → Prop) [DecidablePred p] (t : Tab κ α) (k : κ) (v : α) :
    wtBy p (accum t k v) = wtBy p t + (if p k then v else 0) := by
  induction t with
  | nil => simp [accum, wtBy_cons]
  | cons r t ih =>
    obtain ⟨k', v'⟩ := r
    unfold accum
    by_cases h : k' = k
    · subst h
      simp only [if_true, wtBy_cons]
      by_cases hp : p k' <;> simp [hp, add_assoc, add_comm]
    · simp only [h, if_false, wtBy_cons, ih, add_assoc]

theorem keys_accum (t : Tab κ α) (k : κ) (v : α) :
    keys (accum t k v) = if k ∈ keys t then keys t else keys t ++ [k] := by
  induction t with
  | nil => simp [accum]
  | cons r t ih =>
    obtain ⟨k', v'⟩ := r
    unfold accum
    by_cases h : k' = k
    · subst h; simp
    · have h' : ¬ k = k' := fun e => h e.symm
      simp only [h, if_false, keys_cons, ih, List.mem_cons, h', false_or]
      split <;> simp

theorem mem_keys_accum (t : Tab κ α) (k : κ) (v : α) (x : κ) :
    x ∈ keys (accum t k v) ↔ x ∈ keys t ∨ x = k := by
  rw [keys_accum]
  split
  · constructor
    · exact Or.inl
    · rintro (h | h)
      · exact h
      · subst h; assumption
  · simp

theorem nodup_keys_accum (t : Tab κ α) (k : κ) (v : α) (h : (keys t).Nodup) :
    (keys (accum t k v)).Nodup := by
  rw [keys_accum]
  split
  · exact h
  · rename_i hk
    exact List.nodup_append.mpr ⟨h, by simp, by
      intro a ha b hb
      simp at hb; subst hb
      intro e; subst e; exact hk ha⟩

/-- Fold form of `pushforward`, started from an arbitrary accumulator. -/
theorem wtBy_foldl_accum (p : κ' → Prop) [DecidablePred p] (f : κ → κ') (t : Tab κ α)
    (acc : Tab κ' α) :
    wtBy p (t.foldl (fun acc r => accum acc (f r.1) r.2) acc)
      = wtBy p acc + wtBy (fun k => p (f k)) t := by
  induction t generalizing acc with
  | nil => simp
  | cons r t ih =>
    rw [List.foldl_cons, ih, wtBy_accum, wtBy_cons, add_assoc]

/-- **Push-forward of measures.** The weight of an event in the pushed-forward table is the
weight of its preimage — for any table, also one with repeated keys. -/
theorem wtBy_pushforward (p : κ' → Prop) [DecidablePred p] (f : κ → κ') (t : Tab κ α) :
    wtBy p (pushforward f t) = wtBy (fun k => p (f k)) t := by
  unfold pushforward
  rw [wtBy_foldl_accum]; simp

/-- Pushing forward preserves the total mass. -/
theorem mass_pushforward (f : κ → κ') (t : Tab κ α) : mass (pushforward f t) = mass t := by
  rw [← wtBy_true, ← wtBy_true, wtBy_pushforward]

theorem lsum_vals_pushforward (f : κ → κ') (t : Tab κ α) :
    lsum (vals (pushforward f t)) = lsum (vals t) := by
  rw [← mass_eq_lsum_vals, ← mass_eq_lsum_vals, mass_pushforward]

theorem nodup_keys_foldl_accum (f : κ → κ') (t : Tab κ α) (acc : Tab κ' α)
    (h : (keys acc).Nodup) :
    (keys (t.foldl (fun acc r => accum acc (f r.1) r.2) acc)).Nodup := by
  induction t generalizing acc with
  | nil => exact h
  | cons r t ih => exact ih _ (nodup_keys_accum _ _ _ h)

/-- The keys of a push-forward are pairwise distinct. -/
theorem keys_pushforward_nodup (f : κ → κ') (t : Tab κ α) :
    (keys (pushforward f t)).Nodup :=
  nodup_keys_foldl_accum f t [] List.nodup_nil

theorem mem_keys_foldl_accum (f : κ → κ') (t : Tab κ α) (acc : Tab κ' α) (x : κ') :
    x ∈ keys (t.foldl (fun acc r => accum acc (f r.1) r.2) acc)
      ↔ x ∈ keys acc ∨ ∃ k ∈ keys t, f k = x := by
  induction t generalizing acc with
  | nil => simp
  | cons r t ih =>
    rw [List.foldl_cons, ih, mem_keys_accum]
    simp only [keys_cons, List.mem_cons, exists_eq_or_imp]
    constructor
    · rintro ((h | h) | h)
      · exact Or.inl h
      · exact Or.inr (Or.inl h.symm)
      · exact Or.inr (Or.inr h)
    · rintro (h | h | h)
      · exact Or.inl (Or.inl h)
      · exact Or.inl (Or.inr h.symm)
      · exact Or.inr h

/-- A key is stored in the push-forward iff it is the image of a stored key. -/
theorem mem_keys_pushforward (f : κ → κ') (t : Tab κ α) (x : κ') :
    x ∈ keys (pushforward f t) ↔ ∃ k ∈ keys t, f k = x := by
  unfold pushforward
  rw [mem_keys_foldl_accum]; simp

end Push

/-! ## `dedup` (first occurrences) -/

section Dedup
variable {κ κ' α : Type} [DecidableEq κ] [DecidableEq κ'] [AddCommMonoid α]

theorem mem_dedup {l : List κ} {x : κ} : x ∈ dedup l ↔ x ∈ l := by
  induction l with
  | nil => simp [dedup]
  | cons y l ih =>
    simp only [dedup, List.mem_cons, List.mem_filter, ih, decide_eq_true_eq]
    by_cases h : x = y <;> simp [h]

theorem nodup_dedup (l : List κ) : (dedup l).Nodup := by
  induction l with
  | nil => simp [dedup]
  | cons y l ih =>
    simp only [dedup, List.nodup_cons, List.mem_filter, decide_eq_true_eq, ne_eq, not_true,
      and_false, not_false_iff, true_and]
    exact ih.filter _

theorem dedup_sublist (l : List κ) : (dedup l).Sublist l := by
  induction l with
  | nil => simp [dedup]
  | cons y l ih => exact (List.filter_sublist.trans ih).cons_cons y

theorem length_dedup_le (l : List κ) : (dedup l).length ≤ l.length :=
  (dedup_sublist l).length_le

/-- A list is its own `dedup` exactly when it has no repetition. -/
theorem dedup_eq_self {l : List κ} : dedup l = l ↔ l.Nodup := by
  constructor
  · intro h; rw [← h]; exact nodup_dedup l
  · intro h
    induction l with
    | nil => rfl
    | cons y l ih =>
      have hy := (List.nodup_cons.mp h).1
      simp only [dedup, ih (List.nodup_cons.mp h).2]
      congr 1
      exact List.filter_eq_self.mpr (fun a ha => by
        simp only [ne_eq, decide_eq_true_eq]; intro e; subst e; exact hy ha)

/-- `len(set(rvs)) == len(rvs)`: the uniqueness test of `parse_rvs`. -/
theorem length_dedup_eq {l : List κ} : (dedup l).length = l.length ↔ l.Nodup := by
  constructor
  · intro h
    have := (dedup_sublist l).eq_of_length h
    exact dedup_eq_self.mp this
  · intro h; rw [dedup_eq_self.mpr h]

theorem filter_not_mem_append_singleton (l acc : List κ) (k : κ) :
    l.filter (fun x => decide (x ∉ acc ++ [k]))
      = (l.filter (fun x => decide (x ≠ k))).filter (fun x => decide (x ∉ acc)) := by
  rw [List.filter_filter]
  apply List.filter_congr
  intro x _
  by_cases h1 : x = k <;> by_cases h2 : x ∈ acc <;> simp [h1, h2]

/-- Keys of the fold form of `pushforward`: the accumulator's keys followed by the new
distinct images in order of first appearance. -/
theorem keys_foldl_accum (f : κ → κ') (t : Tab κ α) (acc : Tab κ' α) :
    keys (t.foldl (fun acc r => accum acc (f r.1) r.2) acc)
      = keys acc ++ (dedup (t.map (fun r => f r.1))).filter (fun x => decide (x ∉ keys acc)) := by
  induction t generalizing acc with
  | nil => simp [dedup]
  | cons r t ih =>
    rw [List.foldl_cons, ih, keys_accum]
    simp only [List.map_cons, dedup]
    by_cases hk : f r.1 ∈ keys acc
    · simp only [hk, if_true, List.filter_cons, not_true, decide_false, Bool.false_eq_true,
        if_false]
      congr 1
      rw [List.filter_filter]
      apply List.filter_congr
      intro x _
      by_cases h1 : x = f r.1
      · subst h1; simp [hk]
      · simp [h1]
    · simp only [hk, if_false, List.filter_cons, not_false_iff, decide_true, if_true,
        List.append_assoc, List.singleton_append]
      congr 2
      exact filter_not_mem_append_singleton _ _ _

/-- The stored keys of a push-forward are the distinct images, in order of first appearance
(the iteration order of the `defaultdict` that `coalesce` fills). -/
theorem keys_pushforward (f : κ → κ') (t : Tab κ α) :
    keys (pushforward f t) = dedup (t.map (fun r => f r.1)) := by
  unfold pushforward
  rw [keys_foldl_accum]; simp

end Dedup

/-! ## `lookup?` / `lookupD` -/

section Lookup
variable {κ κ' α : Type} [DecidableEq κ] [DecidableEq κ'] [AddCommMonoid α]

@[simp] theorem lookup?_nil (k : κ) : lookup? ([] : Tab κ α) k = none := rfl

theorem lookup?_cons (r : κ × α) (t : Tab κ α) (k : κ) :
    lookup? (r :: t) k = if r.1 = k then some r.2 else lookup? t k := by
  obtain ⟨k', v'⟩ := r; rfl

theorem lookup?_eq_none_iff {t : Tab κ α} {k : κ} : lookup? t k = none ↔ k ∉ keys t := by
  induction t with
  | nil => simp
  | cons r t ih =>
    rw [lookup?_cons]
    by_cases h : r.1 = k
    · simp [h]
    · have h' : ¬ k = r.1 := fun e => h e.symm
      simp [h, h', ih]

/-- `lookup?` answers `some` exactly for the stored keys. -/
theorem lookup?_isSome_iff {t : Tab κ α} {k : κ} : (lookup? t k).isSome ↔ k ∈ keys t := by
  rw [← not_iff_not, Bool.not_eq_true, Option.isSome_eq_false_iff, Option.isNone_iff_eq_none,
    lookup?_eq_none_iff]

theorem mem_of_lookup?_eq_some {t : Tab κ α} {k : κ} {v : α} (h : lookup? t k = some v) :
    (k, v) ∈ t := by
  induction t with
  | nil => simp at h
  | cons r t ih =>
    rw [lookup?_cons] at h
    by_cases hk : r.1 = k
    · simp only [hk, if_true, Option.some.injEq] at h
      subst hk; subst h; simp
    · simp only [hk, if_false] at h
      exact List.mem_cons_of_mem _ (ih h)

/-- With pairwise distinct keys, `lookup?` finds exactly the stored rows. -/
theorem lookup?_eq_some_iff {t : Tab κ α} (hnd : (keys t).Nodup) {k : κ} {v : α} :
    lookup? t k = some v ↔ (k, v) ∈ t := by
  refine ⟨mem_of_lookup?_eq_some, ?_⟩
  induction t with
  | nil => simp
  | cons r t ih =>
    intro hm
    rw [lookup?_cons]
    rw [keys_cons, List.nodup_cons] at hnd
    rcases List.mem_cons.mp hm with e | hm'
    · subst e; simp
    · have : r.1 ≠ k := by
        intro e; subst e; exact hnd.1 (mem_keys.mpr ⟨v, hm'⟩)
      simp only [this, if_false]
      exact ih hnd.2 hm'

/-- With pairwise distinct keys, lookup does not depend on the stored order. -/
theorem lookup?_perm {s t : Tab κ α} (h : s.Perm t) (hnd : (keys s).Nodup) (k : κ) :
    lookup? s k = lookup? t k := by
  have hnd' : (keys t).Nodup := (h.map _).nodup_iff.mp hnd
  cases hs : lookup? s k with
  | none =>
    symm
    rw [lookup?_eq_none_iff] at hs ⊢
    intro hk; exact hs ((h.map _).mem_iff.mpr hk)
  | some v =>
    symm
    rw [lookup?_eq_some_iff hnd] at hs
    rw [lookup?_eq_some_iff hnd']
    exact h.mem_iff.mp hs

theorem lookupD_perm {s t : Tab κ α} (h : s.Perm t) (hnd : (keys s).Nodup) (z : α) (k : κ) :
    lookupD z s k = lookupD z t k := by
  unfold lookupD; rw [lookup?_perm h hnd]

theorem lookupD_of_not_mem (z : α) {t : Tab κ α} {k : κ} (h : k ∉ keys t) :
    lookupD z t k = z := by
  unfold lookupD; rw [lookup?_eq_none_iff.mpr h]; rfl

/-- With pairwise distinct keys, the stored value of `k` (zero if absent) is the weight of
the singleton event `{k}`. -/
theorem lookupD_eq_wtBy {t : Tab κ α} (hnd : (keys t).Nodup) (k : κ) :
    lookupD 0 t k = wtBy (fun x => x = k) t := by
  induction t with
  | nil => rfl
  | cons r t ih =>
    rw [keys_cons, List.nodup_cons] at hnd
    unfold lookupD at ih ⊢
    rw [lookup?_cons, wtBy_cons]
    by_cases h : r.1 = k
    · subst h
      rw [wtBy_eq_zero _ t (fun x hx e => by subst e; exact hnd.1 hx)]
      simp
    · simp only [h, if_false, zero_add]
      exact ih hnd.2

/-- Lookup in a table that is the graph of a function over a list of keys. -/
theorem lookup?_map_graph (l : List κ) (F : κ → α) (k : κ) :
    lookup? (l.map (fun o => (o, F o))) k = if k ∈ l then some (F k) else none := by
  induction l with
  | nil => simp
  | cons x l ih =>
    rw [List.map_cons, lookup?_cons, ih]
    by_cases h : x = k
    · subst h; simp
    · have h' : ¬ k = x := fun e => h e.symm
      simp [h, h']

theorem keys_map_graph (l : List κ) (F : κ → α) : keys (l.map (fun o => (o, F o))) = l := by
  simp [keys, Function.comp_def]

/-- `lookupD` in a pushed-forward table is the fibre sum. -/
theorem lookupD_pushforward (f : κ → κ') (t : Tab κ α) (k : κ') :
    lookupD 0 (pushforward f t) k = wtBy (fun o => f o = k) t := by
  rw [lookupD_eq_wtBy (keys_pushforward_nodup f t), wtBy_pushforward]

end Lookup

/-! ## `sortBy` (dit's `reorder`) -/

section SortBy
variable {κ κ' α : Type} [DecidableEq κ] [AddCommMonoid α]

theorem insertBy_perm (rank : κ → Nat) (r : κ × α) (t : Tab κ α) :
    (insertBy rank r t).Perm (r :: t) := by
  induction t with
  | nil => exact List.Perm.refl _
  | cons s t ih =>
    unfold insertBy
    split
    · exact List.Perm.refl _
    · exact (ih.cons s).trans (List.Perm.swap r s t)

/-- Sorting only permutes the rows. -/
theorem sortBy_perm (rank : κ → Nat) (t : Tab κ α) : (sortBy rank t).Perm t := by
  induction t with
  | nil => exact List.Perm.refl _
  | cons r t ih =>
    show (insertBy rank r (sortBy rank t)).Perm (r :: t)
    exact (insertBy_perm rank r _).trans (ih.cons r)

theorem keys_sortBy_perm (rank : κ → Nat) (t : Tab κ α) :
    (keys (sortBy rank t)).Perm (keys t) :=
  (sortBy_perm rank t).map _

theorem mem_keys_sortBy (rank : κ → Nat) (t : Tab κ α) (k : κ) :
    k ∈ keys (sortBy rank t) ↔ k ∈ keys t :=
  (keys_sortBy_perm rank t).mem_iff

/-- Sorting keeps the keys pairwise distinct. -/
theorem nodup_keys_sortBy (rank : κ → Nat) (t : Tab κ α) :
    (keys (sortBy rank t)).Nodup ↔ (keys t).Nodup :=
  (keys_sortBy_perm rank t).nodup_iff

theorem wtBy_sortBy (p : κ → Prop) [DecidablePred p] (rank : κ → Nat) (t : Tab κ α) :
    wtBy p (sortBy rank t) = wtBy p t :=
  wtBy_perm p (sortBy_perm rank t)

theorem mass_sortBy (rank : κ → Nat) (t : Tab κ α) : mass (sortBy rank t) = mass t := by
  rw [← wtBy_true, ← wtBy_true, wtBy_sortBy]

theorem lookup?_sortBy (rank : κ → Nat) (t : Tab κ α) (hnd : (keys t).Nodup) (k : κ) :
    lookup? (sortBy rank t) k = lookup? t k :=
  lookup?_perm (sortBy_perm rank t) ((nodup_keys_sortBy rank t).mpr hnd) k

theorem lookupD_sortBy (rank : κ → Nat) (t : Tab κ α) (hnd : (keys t).Nodup) (z : α) (k : κ) :
    lookupD z (sortBy rank t) k = lookupD z t k := by
  unfold lookupD; rw [lookup?_sortBy rank t hnd]

theorem insertBy_pairwise (rank : κ → Nat) (r : κ × α) (t : Tab κ α)
    (h : t.Pairwise (fun a b => rank a.1 ≤ rank b.1)) :
    (insertBy rank r t).Pairwise (fun a b => rank a.1 ≤ rank b.1) := by
  induction t with
  | nil => simp [insertBy]
  | cons s t ih =>
    rw [List.pairwise_cons] at h
    unfold insertBy
    split
    · rename_i hlt
      refine List.pairwise_cons.mpr ⟨?_, List.pairwise_cons.mpr h⟩
      intro x hx
      rcases List.mem_cons.mp hx with e | hx
      · subst e; exact Nat.le_of_lt hlt
      · exact Nat.le_trans (Nat.le_of_lt hlt) (h.1 x hx)
    · rename_i hnlt
      refine List.pairwise_cons.mpr ⟨?_, ih h.2⟩
      intro x hx
      rcases List.mem_cons.mp ((insertBy_perm rank r t).mem_iff.mp hx) with e | hx
      · subst e; exact Nat.le_of_not_lt hnlt
      · exact h.1 x hx

/-- The rows of a sorted table are in non-decreasing rank order. -/
theorem sortBy_sorted (rank : κ → Nat) (t : Tab κ α) :
    (sortBy rank t).Pairwise (fun a b => rank a.1 ≤ rank b.1) := by
  induction t with
  | nil => exact List.Pairwise.nil
  | cons r t ih => exact insertBy_pairwise rank r _ ih

theorem keys_sortBy_sorted (rank : κ → Nat) (t : Tab κ α) :
    (keys (sortBy rank t)).Pairwise (fun a b => rank a ≤ rank b) := by
  unfold keys
  rw [List.pairwise_map]
  exact sortBy_sorted rank t

theorem filter_insertBy (rank : κ → Nat) (n : Nat) (r : κ × α) (t : Tab κ α)
    (h : t.Pairwise (fun a b => rank a.1 ≤ rank b.1)) :
    (insertBy rank r t).filter (fun x => decide (rank x.1 = n))
      = t.filter (fun x => decide (rank x.1 = n)) ++ (if rank r.1 = n then [r] else []) := by
  induction t with
  | nil => unfold insertBy; by_cases hr : rank r.1 = n <;> simp [hr]
  | cons s t ih =>
    rw [List.pairwise_cons] at h
    unfold insertBy
    split
    · rename_i hlt
      by_cases hr : rank r.1 = n
      · have hnil : (s :: t).filter (fun x => decide (rank x.1 = n)) = [] := by
          apply List.filter_eq_nil_iff.mpr
          intro x hx
          have : rank s.1 ≤ rank x.1 := by
            rcases List.mem_cons.mp hx with e | hx
            · subst e; exact Nat.le_refl _
            · exact h.1 x hx
          simp only [decide_eq_true_eq]; omega
        rw [List.filter_cons, hnil]; simp [hr]
      · rw [List.filter_cons]; simp [hr]
    · rw [List.filter_cons, ih h.2, List.filter_cons]
      split <;> simp

/-- **Order among equal ranks.** Rows of equal rank come out in the *reverse* of their input
order (`sortBy` folds from the right and `insertBy` inserts after equal ranks), so `sortBy` is
an anti-stable sort. With pairwise distinct keys of distinct ranks this is invisible. -/
theorem filter_sortBy (rank : κ → Nat) (n : Nat) (t : Tab κ α) :
    (sortBy rank t).filter (fun x => decide (rank x.1 = n))
      = (t.filter (fun x => decide (rank x.1 = n))).reverse := by
  induction t with
  | nil => rfl
  | cons r t ih =>
    show (insertBy rank r (sortBy rank t)).filter _ = _
    rw [filter_insertBy rank n r _ (sortBy_sorted rank t), ih, List.filter_cons]
    by_cases hr : rank r.1 = n <;> simp [hr]

end SortBy

/-! ## `filter` (the trimming of `make_sparse`) -/

section Filter
variable {κ κ' α : Type} [DecidableEq κ] [AddCommMonoid α]

theorem keys_filter_sublist (q : κ × α → Bool) (t : Tab κ α) :
    (keys (t.filter q)).Sublist (keys t) :=
  List.filter_sublist.map _

theorem mem_keys_filter {q : κ × α → Bool} {t : Tab κ α} {k : κ} :
    k ∈ keys (t.filter q) ↔ ∃ v, (k, v) ∈ t ∧ q (k, v) = true := by
  simp [keys, List.mem_filter]

/-- Dropping rows keeps the keys pairwise distinct. -/
theorem nodup_keys_filter (q : κ × α → Bool) {t : Tab κ α} (h : (keys t).Nodup) :
    (keys (t.filter q)).Nodup :=
  h.sublist (keys_filter_sublist q t)

/-- Dropping rows keeps the keys sorted. -/
theorem pairwise_keys_filter (R : κ → κ → Prop) (q : κ × α → Bool) {t : Tab κ α}
    (h : (keys t).Pairwise R) : (keys (t.filter q)).Pairwise R :=
  h.sublist (keys_filter_sublist q t)

/-- Lookup in a filtered table with pairwise distinct keys: the stored value if it passes
the filter. -/
theorem lookup?_filter (q : κ × α → Bool) {t : Tab κ α} (hnd : (keys t).Nodup) (k : κ) :
    lookup? (t.filter q) k = (lookup? t k).filter (fun v => q (k, v)) := by
  induction t with
  | nil => rfl
  | cons r t ih =>
    obtain ⟨k', v'⟩ := r
    rw [keys_cons, List.nodup_cons] at hnd
    rw [List.filter_cons]
    by_cases hq : q (k', v') = true
    · simp only [hq, if_true, lookup?_cons]
      by_cases hk : k' = k
      · subst hk; simp [Option.filter, hq]
      · simp only [hk, if_false]; exact ih hnd.2
    · simp only [hq, Bool.false_eq_true, if_false, lookup?_cons]
      by_cases hk : k' = k
      · subst hk
        rw [ih hnd.2, lookup?_eq_none_iff.mpr hnd.1]
        simp [Option.filter, hq]
      · simp only [hk, if_false]; exact ih hnd.2

theorem lookupD_filter (q : κ × α → Bool) {t : Tab κ α} (hnd : (keys t).Nodup) (z : α) (k : κ) :
    lookupD z (t.filter q) k
      = match lookup? t k with
        | some v => if q (k, v) then v else z
        | none => z := by
  unfold lookupD
  rw [lookup?_filter q hnd]
  cases lookup? t k with
  | none => rfl
  | some v => by_cases h : q (k, v) = true <;> simp [Option.filter, h]

/-- A table splits into the rows kept and the rows dropped by a filter. -/
theorem wtBy_filter_add (p : κ → Prop) [DecidablePred p] (q : κ × α → Bool) (t : Tab κ α) :
    wtBy p (t.filter q) + wtBy p (t.filter (fun r => !q r)) = wtBy p t := by
  induction t with
  | nil => simp
  | cons r t ih =>
    rw [List.filter_cons, List.filter_cons]
    by_cases hq : q r = true
    · simp only [hq, if_true, Bool.not_true, Bool.false_eq_true, if_false, wtBy_cons, add_assoc, ih]
    · simp only [hq, Bool.false_eq_true, if_false, Bool.not_false, if_true, wtBy_cons]
      rw [add_left_comm, ih]

/-- Dropping rows whose value is zero changes no event weight. -/
theorem wtBy_filter_of_zero (p : κ → Prop) [DecidablePred p] (q : κ × α → Bool) (t : Tab κ α)
    (h : ∀ r ∈ t, q r = false → r.2 = 0) : wtBy p (t.filter q) = wtBy p t := by
  induction t with
  | nil => rfl
  | cons r t ih =>
    have ih' := ih (fun x hx => h x (List.mem_cons_of_mem _ hx))
    rw [List.filter_cons]
    by_cases hq : q r = true
    · simp only [hq, if_true, wtBy_cons, ih']
    · have h0 := h r (by simp) (by simpa using hq)
      simp only [hq, Bool.false_eq_true, if_false, wtBy_cons, ih', h0, ite_self, zero_add]

end Filter

/-! ## `isort` (Python's `sorted` with a Boolean strict order) -/

section Isort
variable {β : Type}

theorem isort_ins_perm (lt : β → β → Bool) (x : β) (l : List β) :
    (isort.ins lt x l).Perm (x :: l) := by
  induction l with
  | nil => exact List.Perm.refl _
  | cons y l ih =>
    unfold isort.ins
    split
    · exact (ih.cons y).trans (List.Perm.swap x y l)
    · exact List.Perm.refl _

/-- `isort` only permutes its input. -/
theorem isort_perm (lt : β → β → Bool) (l : List β) : (isort lt l).Perm l := by
  induction l with
  | nil => exact List.Perm.refl _
  | cons x l ih =>
    show (isort.ins lt x (isort lt l)).Perm (x :: l)
    exact (isort_ins_perm lt x _).trans (ih.cons x)

theorem mem_isort {lt : β → β → Bool} {l : List β} {x : β} : x ∈ isort lt l ↔ x ∈ l :=
  (isort_perm lt l).mem_iff

theorem nodup_isort {lt : β → β → Bool} {l : List β} : (isort lt l).Nodup ↔ l.Nodup :=
  (isort_perm lt l).nodup_iff

theorem length_isort (lt : β → β → Bool) (l : List β) : (isort lt l).length = l.length :=
  (isort_perm lt l).length_eq

theorem isort_ins_pairwise (lt : β → β → Bool) (R : β → β → Prop)
    (h1 : ∀ a b, lt a b = true → R a b) (h2 : ∀ a b, lt a b = false → R b a)
    (htr : ∀ a b c, R a b → R b c → R a c) (x : β) (l : List β) (h : l.Pairwise R) :
    (isort.ins lt x l).Pairwise R := by
  induction l with
  | nil => simp [isort.ins]
  | cons y l ih =>
    rw [List.pairwise_cons] at h
    unfold isort.ins
    split
    · rename_i hlt
      refine List.pairwise_cons.mpr ⟨?_, ih h.2⟩
      intro z hz
      rcases List.mem_cons.mp ((isort_ins_perm lt x l).mem_iff.mp hz) with e | hz
      · subst e; exact h1 _ _ hlt
      · exact h.1 z hz
    · rename_i hnlt
      have hxy : R x y := h2 _ _ (by simpa using hnlt)
      refine List.pairwise_cons.mpr ⟨?_, List.pairwise_cons.mpr h⟩
      intro z hz
      rcases List.mem_cons.mp hz with e | hz
      · subst e; exact hxy
      · exact htr _ _ _ hxy (h.1 z hz)

/-- `isort lt` sorts with respect to any transitive relation `R` that contains `lt` and the
converse of its complement (for a strict total order `lt`: `R = ≤`). -/
theorem isort_pairwise (lt : β → β → Bool) (R : β → β → Prop)
    (h1 : ∀ a b, lt a b = true → R a b) (h2 : ∀ a b, lt a b = false → R b a)
    (htr : ∀ a b c, R a b → R b c → R a c) (l : List β) : (isort lt l).Pairwise R := by
  induction l with
  | nil => exact List.Pairwise.nil
  | cons x l ih => exact isort_ins_pairwise lt R h1 h2 htr x _ ih

/-- Sorting indices ascending. -/
theorem isort_nat_sorted (l : List Nat) :
    (isort (fun a b => decide (a < b)) l).Pairwise (· ≤ ·) :=
  isort_pairwise (fun a b => decide (a < b)) (· ≤ ·)
    (fun _ _ h => Nat.le_of_lt (of_decide_eq_true h))
    (fun _ _ h => Nat.le_of_not_lt (of_decide_eq_false h)) (fun _ _ _ => Nat.le_trans) l

end Isort

/-! ## `cartesian` (`itertools.product`) -/

section Cartesian
variable {σ : Type}

/-- Membership in a Cartesian product: componentwise membership. -/
theorem mem_cartesian {as : List (List σ)} {o : List σ} :
    o ∈ cartesian as ↔ List.Forall₂ (fun x a => x ∈ a) o as := by
  induction as generalizing o with
  | nil => simp [cartesian]
  | cons a rest ih =>
    simp only [cartesian, List.mem_flatMap, List.mem_map, List.forall₂_cons_right_iff]
    constructor
    · rintro ⟨x, hx, o', ho', rfl⟩
      exact ⟨x, o', hx, ih.mp ho', rfl⟩
    · rintro ⟨x, o', hx, ho', rfl⟩
      exact ⟨x, hx, o', ih.mpr ho', rfl⟩

/-- Index form of `mem_cartesian`. -/
theorem mem_cartesian_iff_getElem {as : List (List σ)} {o : List σ} :
    o ∈ cartesian as ↔
      o.length = as.length ∧ ∀ (i : Nat) (h1 : i < o.length) (h2 : i < as.length), o[i] ∈ as[i] := by
  rw [mem_cartesian, List.forall₂_iff_get]
  simp

theorem length_of_mem_cartesian {as : List (List σ)} {o : List σ} (h : o ∈ cartesian as) :
    o.length = as.length :=
  (mem_cartesian.mp h).length_eq

/-- A product of duplicate-free alphabets lists every outcome once. -/
theorem nodup_cartesian {as : List (List σ)} (h : ∀ a ∈ as, a.Nodup) : (cartesian as).Nodup := by
  induction as with
  | nil => simp [cartesian]
  | cons a rest ih =>
    have hrest := ih (fun b hb => h b (List.mem_cons_of_mem _ hb))
    have ha := h a (by simp)
    unfold cartesian
    rw [List.nodup_flatMap]
    refine ⟨fun x _ => hrest.map (fun u v e => by injection e), ?_⟩
    refine ha.imp ?_
    intro x y hxy
    simp only [Function.onFun]
    rw [List.disjoint_left]
    intro z hz1 hz2
    rcases List.mem_map.mp hz1 with ⟨u, _, rfl⟩
    rcases List.mem_map.mp hz2 with ⟨v, _, e⟩
    injection e with e1 _
    exact hxy e1.symm

end Cartesian

/-! ## `project` / `projectGroups` -/

section Project
variable {σ : Type}

theorem project_nil (o : List σ) : project [] o = [] := rfl

theorem project_cons (i : Nat) (g : List Nat) (o : List σ) :
    project (i :: g) o = match o[i]? with
      | some x => x :: project g o
      | none => project g o := by
  simp only [project, List.filterMap_cons]
  cases o[i]? <;> rfl

/-- Componentwise relations survive projection (out-of-range indices are dropped on both
sides, the lists having equal length). -/
theorem forall₂_project {τ : Type} {R : σ → τ → Prop} {o : List σ} {as : List τ}
    (h : List.Forall₂ R o as) (g : List Nat) : List.Forall₂ R (project g o) (project g as) := by
  induction g with
  | nil => exact List.Forall₂.nil
  | cons i g ih =>
    rw [project_cons, project_cons]
    have hlen := h.length_eq
    by_cases hi : i < o.length
    · have hi' : i < as.length := hlen ▸ hi
      rw [List.getElem?_eq_getElem hi, List.getElem?_eq_getElem hi']
      refine List.Forall₂.cons ?_ ih
      have := h.get hi hi'
      simpa using this
    · have hi' : ¬ i < as.length := hlen ▸ hi
      rw [List.getElem?_eq_none (by omega), List.getElem?_eq_none (by omega)]
      exact ih

theorem length_project {g : List Nat} {o : List σ} (h : ∀ i ∈ g, i < o.length) :
    (project g o).length = g.length := by
  induction g with
  | nil => rfl
  | cons i g ih =>
    rw [project_cons, List.getElem?_eq_getElem (h i (by simp))]
    simp [ih (fun j hj => h j (List.mem_cons_of_mem _ hj))]

/-- Component `j` of a projection onto valid indices `I` is component `I[j]`. -/
theorem getElem?_project {I : List Nat} {o : List σ} (h : ∀ i ∈ I, i < o.length) (j : Nat) :
    (project I o)[j]? = (I[j]?).bind (fun i => o[i]?) := by
  induction I generalizing j with
  | nil => simp [project]
  | cons i I ih =>
    rw [project_cons, List.getElem?_eq_getElem (h i (by simp))]
    cases j with
    | zero => simp [List.getElem?_eq_getElem (h i (by simp))]
    | succ j => simpa using ih (fun k hk => h k (List.mem_cons_of_mem _ hk)) j

/-- Out-of-range indices do not matter. -/
theorem project_filter_lt (I : List Nat) (o : List σ) :
    project (I.filter (fun i => decide (i < o.length))) o = project I o := by
  induction I with
  | nil => rfl
  | cons i I ih =>
    rw [List.filter_cons]
    by_cases hi : i < o.length
    · simp only [hi, decide_true, if_true, project_cons, ih]
    · simp only [hi, decide_false, Bool.false_eq_true, if_false, project_cons, ih,
        List.getElem?_eq_none (Nat.le_of_not_lt hi)]

/-- **Staging on outcomes.** Projecting onto valid indices `I` and then onto positions `J` of
the result is projecting onto `J.filterMap (I[·]?)`. (Validity of `I` is needed: an invalid
index is dropped and shifts the later positions.) -/
theorem project_project {I : List Nat} {o : List σ} (h : ∀ i ∈ I, i < o.length) (J : List Nat) :
    project J (project I o) = project (J.filterMap (fun j => I[j]?)) o := by
  show J.filterMap (fun j => (project I o)[j]?) = (J.filterMap (fun j => I[j]?)).filterMap _
  rw [List.filterMap_filterMap]
  apply List.filterMap_congr
  intro j _
  exact getElem?_project h j

/-- Staging without a validity assumption: invalid indices of the first stage are dropped. -/
theorem project_project' (I J : List Nat) (o : List σ) :
    project J (project I o)
      = project (J.filterMap (fun j => (I.filter (fun i => decide (i < o.length)))[j]?)) o := by
  rw [← project_filter_lt I o]
  exact project_project (fun i hi => by simpa using (List.mem_filter.mp hi).2) J

theorem mem_filterMap_getElem?_lt {I J : List Nat} {n : Nat} (h : ∀ i ∈ I, i < n) :
    ∀ i ∈ J.filterMap (fun j => I[j]?), i < n := by
  intro i hi
  rcases List.mem_filterMap.mp hi with ⟨j, _, hj⟩
  exact h i (List.mem_of_getElem? hj)

theorem project_nil_right (g : List Nat) : project g ([] : List σ) = [] := by
  induction g with
  | nil => rfl
  | cons i g ih => rw [project_cons]; simpa using ih

theorem project_cons_right_of_pos {g : List Nat} (h : ∀ i ∈ g, 0 < i) (x : σ) (o : List σ) :
    project g (x :: o) = project (g.map (· - 1)) o := by
  induction g with
  | nil => rfl
  | cons i g ih =>
    have hi := h i (by simp)
    obtain ⟨j, rfl⟩ : ∃ j, i = j + 1 := ⟨i - 1, by omega⟩
    rw [List.map_cons, project_cons, project_cons,
      ih (fun k hk => h k (List.mem_cons_of_mem _ hk))]
    simp

/-- **Variable order is kept.** Projecting onto strictly increasing indices (what `parse_rvs`
returns for `marginal`) selects a subsequence: the kept components appear in their original
order. -/
theorem project_sublist {g : List Nat} (h : g.Pairwise (· < ·)) (o : List σ) :
    (project g o).Sublist o := by
  induction o generalizing g with
  | nil => rw [project_nil_right]
  | cons x o ih =>
    have shift : ∀ {g' : List Nat}, g'.Pairwise (· < ·) → (∀ i ∈ g', 0 < i) →
        (g'.map (· - 1)).Pairwise (· < ·) := by
      intro g' hp hpos
      rw [List.pairwise_map]
      exact hp.imp_of_mem (fun ha hb hab => by
        have := hpos _ ha; have := hpos _ hb; omega)
    cases g with
    | nil => exact List.nil_sublist _
    | cons i g =>
      rw [List.pairwise_cons] at h
      cases i with
      | zero =>
        have hpos : ∀ k ∈ g, 0 < k := fun k hk => h.1 k hk
        rw [project_cons]
        simp only [List.getElem?_cons_zero]
        rw [project_cons_right_of_pos hpos]
        exact (ih (shift h.2 hpos)).cons_cons x
      | succ j =>
        have hpos : ∀ k ∈ (j + 1) :: g, 0 < k := by
          intro k hk
          rcases List.mem_cons.mp hk with e | hk
          · omega
          · have := h.1 k hk; omega
        rw [project_cons_right_of_pos hpos]
        exact (ih (shift (List.pairwise_cons.mpr h) hpos)).cons x

theorem projectGroups_eq (groups : List (List Nat)) (o : List σ) :
    projectGroups groups o = groups.map (fun g => project g o) := rfl

end Project

/-! ## `indexOf?` and the rank of an outcome in a sample space -/

section Rank
variable {κ σ : Type} [DecidableEq κ] [DecidableEq σ]

theorem indexOf?_cons (y : κ) (l : List κ) (x : κ) :
    indexOf? (y :: l) x = if y = x then some 0 else (indexOf? l x).map (· + 1) := rfl

theorem indexOf?_eq_none_iff {l : List κ} {x : κ} : indexOf? l x = none ↔ x ∉ l := by
  induction l with
  | nil => simp [indexOf?]
  | cons y l ih =>
    rw [indexOf?_cons]
    by_cases h : y = x
    · simp [h]
    · have h' : ¬ x = y := fun e => h e.symm
      simp [h, h', ih]

/-- `indexOf?` returns a position holding `x`, and the first such. -/
theorem indexOf?_eq_some {l : List κ} {x : κ} {i : Nat} (h : indexOf? l x = some i) :
    l[i]? = some x ∧ ∀ j, j < i → l[j]? ≠ some x := by
  induction l generalizing i with
  | nil => simp [indexOf?] at h
  | cons y l ih =>
    rw [indexOf?_cons] at h
    by_cases hy : y = x
    · simp only [hy, if_true, Option.some.injEq] at h
      subst h; subst hy; simp
    · simp only [hy, if_false, Option.map_eq_some_iff] at h
      obtain ⟨i', hi', rfl⟩ := h
      obtain ⟨h1, h2⟩ := ih hi'
      refine ⟨by simpa using h1, ?_⟩
      intro j hj
      cases j with
      | zero => simpa using hy
      | succ j => simpa using h2 j (by omega)

/-- Rank of `x` in the list `l`: index of its first occurrence, `l.length` if absent. -/
theorem rank_cons_self (y : κ) (l : List κ) :
    (indexOf? (y :: l) y).getD (y :: l).length = 0 := by
  simp [indexOf?_cons]

theorem rank_cons_of_ne {y x : κ} (l : List κ) (h : y ≠ x) :
    (indexOf? (y :: l) x).getD (y :: l).length = (indexOf? l x).getD l.length + 1 := by
  rw [indexOf?_cons]
  simp only [h, if_false, List.length_cons]
  cases indexOf? l x <;> simp

theorem rank_lt_length_iff {l : List κ} {x : κ} :
    (indexOf? l x).getD l.length < l.length ↔ x ∈ l := by
  constructor
  · intro h
    by_contra hx
    rw [indexOf?_eq_none_iff.mpr hx] at h
    simp at h
  · intro hx
    cases hi : indexOf? l x with
    | none => exact absurd hx (indexOf?_eq_none_iff.mp hi)
    | some i =>
      have := (indexOf?_eq_some hi).1
      have := (List.getElem?_eq_some_iff.mp this).1
      simpa using this

/-- In a duplicate-free list, ranks increase strictly along the list. -/
theorem pairwise_rank_of_nodup {l : List κ} (h : l.Nodup) :
    l.Pairwise (fun a b => (indexOf? l a).getD l.length < (indexOf? l b).getD l.length) := by
  induction l with
  | nil => exact List.Pairwise.nil
  | cons y l ih =>
    rw [List.nodup_cons] at h
    refine List.pairwise_cons.mpr ⟨?_, ?_⟩
    · intro b hb
      have hne : y ≠ b := fun e => h.1 (e ▸ hb)
      rw [rank_cons_self, rank_cons_of_ne l hne]; omega
    · refine (ih h.2).imp_of_mem ?_
      intro a b ha hb hab
      have hna : y ≠ a := fun e => h.1 (e ▸ ha)
      have hnb : y ≠ b := fun e => h.1 (e ▸ hb)
      rw [rank_cons_of_ne l hna, rank_cons_of_ne l hnb]; omega

theorem Space.mem_iff (s : Space σ) (o : List σ) : s.mem o = true ↔ o ∈ s.toList := by
  simp [Space.mem]

/-- The rank is a position of the sample space exactly for its members. -/
theorem Space.rank_lt_iff (s : Space σ) (o : List σ) :
    s.rank o < s.toList.length ↔ o ∈ s.toList :=
  rank_lt_length_iff

/-- A duplicate-free sample space is listed in strictly increasing rank. -/
theorem Space.pairwise_rank (s : Space σ) (h : s.toList.Nodup) :
    s.toList.Pairwise (fun a b => s.rank a < s.rank b) :=
  pairwise_rank_of_nodup h

end Rank

/-! ## Distribution values: `get`, `makeDense`, `makeSparse` -/

section DistLemmas
variable {σ α : Type} [DecidableEq σ] [AddCommMonoid α]

theorem get_eq (d : Dist σ α) (o : List σ) :
    d.get o = if o ∈ d.space.toList then some (lookupD 0 d.tab o) else none := by
  unfold Dist.get
  by_cases h : o ∈ d.space.toList
  · simp [h, (Space.mem_iff d.space o).mpr h]
  · have : d.space.mem o = false := by
      rw [← Bool.not_eq_true, Space.mem_iff]; exact h
    simp [h, this]

/-- `make_dense`: every member of the sample space is stored, with its old value or zero. -/
theorem get_makeDense (d : Dist σ α) (o : List σ) : d.makeDense.get o = d.get o := by
  rw [get_eq, get_eq]
  show (if o ∈ d.space.toList then some (lookupD 0 (d.space.toList.map _) o) else none) = _
  by_cases h : o ∈ d.space.toList
  · simp only [h, if_true]
    unfold lookupD
    rw [lookup?_map_graph]
    simp [h]
  · simp [h]

theorem keys_makeDense (d : Dist σ α) : keys d.makeDense.tab = d.space.toList :=
  keys_map_graph _ _

/-- `make_sparse(trim=True)` on a table with pairwise distinct keys: a stored null value
reads as an exact zero afterwards; everything else is unchanged. -/
theorem get_makeSparse_trim (cfg : NumCfg α) (d : Dist σ α) (hnd : (keys d.tab).Nodup)
    (o : List σ) :
    (d.makeSparse cfg true).get o
      = if o ∈ d.space.toList then
          some (if cfg.isNull d.base (lookupD 0 d.tab o) = true ∧ o ∈ keys d.tab then 0
                else lookupD 0 d.tab o)
        else none := by
  rw [get_eq]
  show (if o ∈ d.space.toList then some (lookupD 0 (d.tab.filter _) o) else none) = _
  by_cases h : o ∈ d.space.toList
  · simp only [h, if_true, Option.some.injEq]
    rw [lookupD_filter _ hnd]
    cases hl : lookup? d.tab o with
    | none =>
      have : o ∉ keys d.tab := lookup?_eq_none_iff.mp hl
      simp [this, lookupD, hl]
    | some v =>
      have : o ∈ keys d.tab := by
        rw [← lookup?_isSome_iff, hl]; rfl
      by_cases hn : cfg.isNull d.base v = true <;> simp [this, lookupD, hl, hn]
  · simp [h]

end DistLemmas

/-! ## Disintegration: summing fibre weights over a duplicate-free list of keys -/

section Disint
variable {κ κ' α : Type} [DecidableEq κ] [DecidableEq κ'] [AddCommMonoid α]

theorem sum_map_ite_eq_of_nodup {l : List κ} (hl : l.Nodup) {a : κ} (ha : a ∈ l) (F : κ → α) :
    (l.map (fun x => if a = x then F x else 0)).sum = F a := by
  induction l with
  | nil => simp at ha
  | cons y l ih =>
    rw [List.nodup_cons] at hl
    rw [List.map_cons, List.sum_cons]
    rcases List.mem_cons.mp ha with e | ha'
    · subst e
      have : (l.map (fun x => if a = x then F x else 0)).sum = 0 := by
        apply List.sum_eq_zero
        intro z hz
        rcases List.mem_map.mp hz with ⟨x, hx, rfl⟩
        have : a ≠ x := fun e => hl.1 (e ▸ hx)
        simp [this]
      simp [this]
    · have : a ≠ y := fun e => hl.1 (e ▸ ha')
      simp [this, ih hl.2 ha']

theorem wtBy_map_graph (q : κ → Prop) [DecidablePred q] (l : List κ) (F : κ → α) :
    wtBy q (l.map (fun x => (x, F x))) = (l.map (fun x => if q x then F x else 0)).sum := by
  simp [wtBy, Function.comp_def]

/-- **Disintegration.** If every stored key is mapped by `f` into the duplicate-free list `l`,
summing the fibre weights over the members of `l` that satisfy `q` gives the weight of the
preimage of `q`. -/
theorem sum_map_wtBy_fibre {l : List κ'} (hl : l.Nodup) (f : κ → κ') (q : κ' → Prop)
    [DecidablePred q] (t : Tab κ α) (h : ∀ k ∈ keys t, f k ∈ l) :
    (l.map (fun x => if q x then wtBy (fun k => f k = x) t else 0)).sum
      = wtBy (fun k => q (f k)) t := by
  induction t with
  | nil => simp
  | cons r t ih =>
    have ih' := ih (fun k hk => h k (List.mem_cons_of_mem _ hk))
    have hr : f r.1 ∈ l := h r.1 (by simp)
    have e : (fun x => if q x then wtBy (fun k => f k = x) (r :: t) else 0)
        = fun x => (if f r.1 = x then (if q x then r.2 else 0) else 0)
            + (if q x then wtBy (fun k => f k = x) t else 0) := by
      funext x
      rw [wtBy_cons]
      by_cases hq : q x <;> by_cases hx : f r.1 = x <;> simp [hq, hx]
    rw [e, List.sum_map_add, ih', sum_map_ite_eq_of_nodup hl hr, wtBy_cons]

/-- Total mass as a sum of singleton weights over a duplicate-free list containing all keys. -/
theorem sum_map_wtBy_singleton {l : List κ} (hl : l.Nodup) (t : Tab κ α)
    (h : ∀ k ∈ keys t, k ∈ l) :
    (l.map (fun x => wtBy (fun k => k = x) t)).sum = mass t := by
  have := sum_map_wtBy_fibre hl (fun k : κ => k) (fun _ => True) t h
  simpa [wtBy_true] using this

end Disint

/-! ## The common tail of `coalesce` and `coalesce1`

Both build `{space := sp, tab := sortBy sp.rank (pushforward f d.tab), …}` and finish with
`make_sparse(trim=True)` or `make_dense`.  `finishPush` is that tail; `coalesce1_eq_finishPush`
and `coalesce_eq_finishPush` hold by `rfl`, so nothing is re-modelled here. -/

section Finish
variable {κ σ σ' α : Type} [DecidableEq κ] [DecidableEq σ] [DecidableEq σ'] [AddCommMonoid α]

/-- Common tail of `Dist.coalesce` / `Dist.coalesce1` (proof device only). -/
def finishPush (cfg : NumCfg α) (sp : Space σ') (f : κ → List σ') (t : Tab κ α)
    (sparse : Bool) (base : Base) : Dist σ' α :=
  let d' : Dist σ' α :=
    { space := sp, tab := sortBy sp.rank (pushforward f t), sparse := sparse, base := base }
  if sparse then d'.makeSparse cfg true else d'.makeDense

theorem coalesce1_eq_finishPush (cfg : NumCfg α) (outLt : List σ → List σ → Bool)
    (d : Dist σ α) (g : List Nat) :
    d.coalesce1 cfg outLt g
      = finishPush cfg (d.space.extract outLt g) (project g) d.tab d.sparse d.base := rfl

theorem coalesce_eq_finishPush (cfg : NumCfg α) (outLt : List (List σ) → List (List σ) → Bool)
    (d : Dist σ α) (groups : List (List Nat)) :
    d.coalesce cfg outLt groups
      = finishPush cfg (d.space.coalesce outLt groups) (projectGroups groups) d.tab
          d.sparse d.base := rfl

variable (cfg : NumCfg α) (sp : Space σ') (f : κ → List σ') (t : Tab κ α) (base : Base)

theorem finishPush_space (b : Bool) : (finishPush cfg sp f t b base).space = sp := by
  cases b <;> rfl

theorem finishPush_base (b : Bool) : (finishPush cfg sp f t b base).base = base := by
  cases b <;> rfl

theorem finishPush_sparse (b : Bool) : (finishPush cfg sp f t b base).sparse = b := by
  cases b <;> rfl

theorem nodup_keys_sorted_pushforward :
    (keys (sortBy sp.rank (pushforward f t))).Nodup :=
  (nodup_keys_sortBy _ _).mpr (keys_pushforward_nodup f t)

theorem lookupD_sorted_pushforward (o : List σ') :
    lookupD 0 (sortBy sp.rank (pushforward f t)) o = wtBy (fun k => f k = o) t := by
  rw [lookupD_sortBy _ _ (keys_pushforward_nodup f t), lookupD_pushforward]

/-- Dense result: the table is the graph of the fibre-sum function over the new sample
space, in sample-space order. -/
theorem finishPush_tab_dense :
    (finishPush cfg sp f t false base).tab
      = sp.toList.map (fun o => (o, wtBy (fun k => f k = o) t)) := by
  show sp.toList.map (fun o => (o, lookupD 0 (sortBy sp.rank (pushforward f t)) o)) = _
  apply List.map_congr_left
  intro o _
  rw [lookupD_sorted_pushforward]

/-- Sparse result: the sorted push-forward with the null rows dropped. -/
theorem finishPush_tab_sparse :
    (finishPush cfg sp f t true base).tab
      = (sortBy sp.rank (pushforward f t)).filter (fun r => !cfg.isNull base r.2) := rfl

theorem finishPush_get_none (b : Bool) (o : List σ') (ho : o ∉ sp.toList) :
    (finishPush cfg sp f t b base).get o = none := by
  rw [get_eq, finishPush_space]; simp [ho]

theorem finishPush_get_dense (o : List σ') (ho : o ∈ sp.toList) :
    (finishPush cfg sp f t false base).get o = some (wtBy (fun k => f k = o) t) := by
  show (Dist.makeDense _).get o = _
  rw [get_makeDense, get_eq]
  simp only [ho, if_true]
  rw [lookupD_sorted_pushforward]

theorem finishPush_get_sparse (o : List σ') (ho : o ∈ sp.toList) :
    (finishPush cfg sp f t true base).get o
      = some (if cfg.isNull base (wtBy (fun k => f k = o) t) = true
                  ∧ o ∈ keys (pushforward f t) then 0
              else wtBy (fun k => f k = o) t) := by
  show (Dist.makeSparse cfg _ true).get o = _
  rw [get_makeSparse_trim cfg _ (nodup_keys_sorted_pushforward sp f t)]
  simp only [ho, if_true, lookupD_sorted_pushforward, mem_keys_sortBy]

theorem finishPush_keys_dense :
    keys (finishPush cfg sp f t false base).tab = sp.toList :=
  keys_makeDense _

theorem finishPush_keys_sparse_nodup :
    (keys (finishPush cfg sp f t true base).tab).Nodup :=
  nodup_keys_filter _ (nodup_keys_sorted_pushforward sp f t)

theorem finishPush_keys_sparse_sorted :
    (keys (finishPush cfg sp f t true base).tab).Pairwise (fun a b => sp.rank a ≤ sp.rank b) :=
  pairwise_keys_filter _ _ (keys_sortBy_sorted _ _)

/-- Stored keys of the sparse result: the images of stored keys whose fibre sum is not null. -/
theorem finishPush_mem_keys_sparse (o : List σ') :
    o ∈ keys (finishPush cfg sp f t true base).tab
      ↔ (∃ k ∈ keys t, f k = o) ∧ cfg.isNull base (wtBy (fun k => f k = o) t) = false := by
  rw [finishPush_tab_sparse, mem_keys_filter]
  have hnd := nodup_keys_sorted_pushforward sp f t
  constructor
  · rintro ⟨v, hv, hq⟩
    have hk : o ∈ keys (pushforward f t) :=
      (mem_keys_sortBy sp.rank _ o).mp (mem_keys.mpr ⟨v, hv⟩)
    have hl := (lookup?_eq_some_iff hnd).mpr hv
    have : lookupD 0 (sortBy sp.rank (pushforward f t)) o = v := by simp [lookupD, hl]
    rw [lookupD_sorted_pushforward] at this
    refine ⟨(mem_keys_pushforward f t o).mp hk, ?_⟩
    rw [this]; simpa using hq
  · rintro ⟨hk, hn⟩
    have hk' : o ∈ keys (sortBy sp.rank (pushforward f t)) :=
      (mem_keys_sortBy sp.rank _ o).mpr ((mem_keys_pushforward f t o).mpr hk)
    obtain ⟨v, hv⟩ := mem_keys.mp hk'
    have hl := (lookup?_eq_some_iff hnd).mpr hv
    have : lookupD 0 (sortBy sp.rank (pushforward f t)) o = v := by simp [lookupD, hl]
    rw [lookupD_sorted_pushforward] at this
    exact ⟨v, hv, by rw [← this]; simp [hn]⟩

/-- Dense result: total mass is preserved when every stored key is mapped into the new
sample space and that space lists each outcome once. -/
theorem finishPush_mass_dense (hl : sp.toList.Nodup) (h : ∀ k ∈ keys t, f k ∈ sp.toList) :
    mass (finishPush cfg sp f t false base).tab = mass t := by
  rw [finishPush_tab_dense, ← wtBy_true, wtBy_map_graph]
  have := sum_map_wtBy_fibre hl f (fun _ => True) t h
  simpa [wtBy_true] using this

/-- Sparse result: exact accounting of the mass — what is kept plus what was trimmed. -/
theorem finishPush_mass_sparse :
    mass (finishPush cfg sp f t true base).tab
        + mass ((pushforward f t).filter (fun r => cfg.isNull base r.2))
      = mass t := by
  rw [finishPush_tab_sparse, ← wtBy_true, ← wtBy_true]
  have hp : ((sortBy sp.rank (pushforward f t)).filter (fun r => cfg.isNull base r.2)).Perm
      ((pushforward f t).filter (fun r => cfg.isNull base r.2)) :=
    (sortBy_perm sp.rank _).filter _
  rw [← wtBy_perm _ hp]
  have := wtBy_filter_add (fun _ => True) (fun r => !cfg.isNull base r.2)
    (sortBy sp.rank (pushforward f t))
  simp only [Bool.not_not] at this
  rw [this, wtBy_sortBy, wtBy_pushforward, wtBy_true]

end Finish

end Dit.Lemmas.Table
