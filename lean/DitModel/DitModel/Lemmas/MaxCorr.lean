/-
Helper lemmas for the trace / chi-square identity of the maximum-correlation companion matrix.
Property theorems are in Props/C06MaxCorr.lean.
-/
import DitModel.Props.C06

set_option linter.unusedSectionVars false

namespace Dit.Lemmas.MaxCorr
open Dit Dit.Lemmas.Table Dit.Lemmas.InfoReal Dit.Lemmas.Diverge

/-! ### Marginals of a non-negative table -/

theorem head_len (P : List (List ℝ)) (n : Nat) (hne : P ≠ []) (hlen : ∀ row ∈ P, row.length = n) :
    (P.head?.getD []).length = n := by
  cases P with
  | nil => exact absurd rfl hne
  | cons r t => simpa using hlen r List.mem_cons_self

theorem getD_nonneg (row : List ℝ) (hnn : ∀ x ∈ row, 0 ≤ x) (k : Nat) : 0 ≤ row.getD k 0 := by
  rw [List.getD_eq_getElem?_getD]
  by_cases hi : k < row.length
  · rw [List.getElem?_eq_getElem hi]; exact hnn _ (List.getElem_mem hi)
  · rw [List.getElem?_eq_none (by omega)]; exact le_rfl

theorem rowsum_nonneg (row : List ℝ) (hnn : ∀ x ∈ row, 0 ≤ x) : 0 ≤ row.sum := by
  have := sum_map_nonneg row id (fun x hx => hnn x hx)
  simpa using this

theorem colSum_nonneg (P : List (List ℝ)) (hnn : ∀ row ∈ P, ∀ x ∈ row, 0 ≤ x) (k : Nat) :
    0 ≤ colSum P k :=
  sum_map_nonneg _ _ (fun row hrow => getD_nonneg row (hnn row hrow) k)

theorem getD_eq_zero_of_colSum (P : List (List ℝ)) (hnn : ∀ row ∈ P, ∀ x ∈ row, 0 ≤ x) (k : Nat)
    (h : colSum P k = 0) : ∀ row ∈ P, row.getD k 0 = 0 :=
  (sum_map_eq_zero_iff P (fun row => row.getD k 0)
    (fun row hrow => getD_nonneg row (hnn row hrow) k)).mp h

theorem rowsum_eq_rsum (row : List ℝ) (n : Nat) (h : row.length = n) :
    row.sum = rsum n (fun j => row.getD j 0) := by
  have := sum_map_eq_range row n h id
  simp only [id] at this
  rw [List.map_id] at this
  exact this

theorem rsum_colSum (P : List (List ℝ)) (n : Nat) (hlen : ∀ row ∈ P, row.length = n) :
    rsum n (fun k => colSum P k) = (P.map List.sum).sum := by
  show ((List.range n).map (fun k => (P.map (fun row => row.getD k 0)).sum)).sum = _
  rw [sum_comm]
  apply congrArg
  apply List.map_congr_left
  intro row hrow
  exact (rowsum_eq_rsum row n (hlen row hrow)).symm

/-- A cell with a zero marginal is zero. -/
theorem cell_zero (P : List (List ℝ)) (hnn : ∀ row ∈ P, ∀ x ∈ row, 0 ≤ x) (row : List ℝ)
    (hrow : row ∈ P) (j : Nat) (h : row.sum = 0 ∨ colSum P j = 0) : row.getD j 0 = 0 := by
  rcases h with h | h
  · exact getD_eq_zero_of_sum row (hnn row hrow) h j
  · exact getD_eq_zero_of_colSum P hnn j h row hrow

/-! ### The chi-square expansion -/

theorem cell_expand (P : List (List ℝ)) (hnn : ∀ row ∈ P, ∀ x ∈ row, 0 ≤ x) (row : List ℝ)
    (hrow : row ∈ P) (j : Nat) :
    (if row.sum = 0 ∨ colSum P j = 0 then 0
      else (row.getD j 0 - row.sum * colSum P j) ^ 2 / (row.sum * colSum P j))
    = (if row.sum = 0 ∨ colSum P j = 0 then 0
        else row.getD j 0 * row.getD j 0 / (row.sum * colSum P j))
      - 2 * row.getD j 0 + row.sum * colSum P j := by
  by_cases h : row.sum = 0 ∨ colSum P j = 0
  · rw [if_pos h, if_pos h]
    have e : row.getD j 0 = 0 := cell_zero P hnn row hrow j h
    have e2 : row.sum * colSum P j = 0 := by rcases h with h | h <;> simp [h]
    rw [e, e2]; ring
  · rw [if_neg h, if_neg h]
    rw [not_or] at h
    obtain ⟨h1, h2⟩ := h
    field_simp
    ring

theorem cell_nonneg (P : List (List ℝ)) (hnn : ∀ row ∈ P, ∀ x ∈ row, 0 ≤ x) (row : List ℝ)
    (hrow : row ∈ P) (j : Nat) :
    0 ≤ (if row.sum = 0 ∨ colSum P j = 0 then (0 : ℝ)
      else (row.getD j 0 - row.sum * colSum P j) ^ 2 / (row.sum * colSum P j)) := by
  split
  · exact le_rfl
  · exact div_nonneg (sq_nonneg _)
      (mul_nonneg (rowsum_nonneg row (hnn row hrow)) (colSum_nonneg P hnn j))

theorem cell_eq_zero_iff (P : List (List ℝ)) (hnn : ∀ row ∈ P, ∀ x ∈ row, 0 ≤ x) (row : List ℝ)
    (hrow : row ∈ P) (j : Nat) :
    (if row.sum = 0 ∨ colSum P j = 0 then (0 : ℝ)
      else (row.getD j 0 - row.sum * colSum P j) ^ 2 / (row.sum * colSum P j)) = 0
    ↔ row.getD j 0 = row.sum * colSum P j := by
  by_cases h : row.sum = 0 ∨ colSum P j = 0
  · rw [if_pos h]
    have e : row.getD j 0 = 0 := cell_zero P hnn row hrow j h
    have e2 : row.sum * colSum P j = 0 := by rcases h with h | h <;> simp [h]
    rw [e, e2]
  · rw [if_neg h]
    rw [not_or] at h
    have hne : row.sum * colSum P j ≠ 0 := mul_ne_zero h.1 h.2
    rw [div_eq_zero_iff]
    constructor
    · intro h'
      rcases h' with h' | h'
      · have := pow_eq_zero_iff (two_ne_zero) |>.mp h'
        linarith
      · exact absurd h' hne
    · intro h'
      left
      rw [h', sub_self]; ring

/-- `χ² = tr A − 1` in list form. -/
theorem chi2_eq (P : List (List ℝ)) (n : Nat) (hlen : ∀ row ∈ P, row.length = n)
    (hnn : ∀ row ∈ P, ∀ x ∈ row, 0 ≤ x) (hmass : (P.map List.sum).sum = 1) :
    (P.map (fun row => rsum n (fun j => if row.sum = 0 ∨ colSum P j = 0 then 0
      else (row.getD j 0 - row.sum * colSum P j) ^ 2 / (row.sum * colSum P j)))).sum
    = rsum n (fun j => ccEntry P j j) - 1 := by
  have step1 : rsum n (fun j => ccEntry P j j)
      = (P.map (fun row => rsum n (fun j => if row.sum = 0 ∨ colSum P j = 0 then 0
          else row.getD j 0 * row.getD j 0 / (row.sum * colSum P j)))).sum := by
    unfold ccEntry rsum
    rw [sum_comm]
  have step2 : ∀ row ∈ P, rsum n (fun j => if row.sum = 0 ∨ colSum P j = 0 then 0
      else (row.getD j 0 - row.sum * colSum P j) ^ 2 / (row.sum * colSum P j))
      = rsum n (fun j => if row.sum = 0 ∨ colSum P j = 0 then 0
          else row.getD j 0 * row.getD j 0 / (row.sum * colSum P j)) - row.sum := by
    intro row hrow
    rw [rsum_congr n _ _ (fun j _ => cell_expand P hnn row hrow j), rsum_add, rsum_sub,
      rsum_mul_left, rsum_mul_left, ← rowsum_eq_rsum row n (hlen row hrow), rsum_colSum P n hlen,
      hmass]
    ring
  rw [List.map_congr_left step2, sum_map_sub, ← step1, hmass]

/-! ### The quadratic form of the companion matrix -/

theorem rsum_list_comm {β : Type} (n : Nat) (l : List β) (f : Nat → β → ℝ) :
    rsum n (fun j => (l.map (fun b => f j b)).sum) = (l.map (fun b => rsum n (fun j => f j b))).sum :=
  sum_comm _ _ _

/-- The guard of `ccEntry` is redundant over a field with `x / 0 = 0`. -/
theorem ccEntry_eq (P : List (List ℝ)) (j k : Nat) :
    ccEntry P j k
      = (P.map (fun row => row.getD j 0 * row.getD k 0 / (row.sum * colSum P k))).sum := by
  unfold ccEntry
  apply congrArg
  apply List.map_congr_left
  intro row _
  split
  · rename_i h
    rcases h with h | h <;> simp [h]
  · rfl

/-- `(A v)_j = Σ_i P_ij / p_X(i) · Σ_k P_ik v_k / p_Y(k)`. -/
theorem cc_apply (P : List (List ℝ)) (n : Nat) (v : Nat → ℝ) (j : Nat) :
    rsum n (fun k => ccEntry P j k * v k)
      = (P.map (fun row => row.getD j 0 / row.sum
          * rsum n (fun k => row.getD k 0 * (v k / colSum P k)))).sum := by
  have e : ∀ k, k < n → ccEntry P j k * v k
      = (P.map (fun row => row.getD j 0 / row.sum * (row.getD k 0 * (v k / colSum P k)))).sum := by
    intro k _
    rw [ccEntry_eq, ← sum_map_mul_right]
    apply congrArg
    apply List.map_congr_left
    intro row _
    ring
  rw [rsum_congr n _ _ e, rsum_list_comm]
  apply congrArg
  apply List.map_congr_left
  intro row _
  exact rsum_mul_left _ _ _

/-- `Σ_j w_j (A v)_j = Σ_i (Σ_k P_ik w_k)² / p_X(i)` with `w_j = v_j / p_Y(j)`. -/
theorem cc_quad (P : List (List ℝ)) (n : Nat) (v : Nat → ℝ) :
    rsum n (fun j => v j / colSum P j * rsum n (fun k => ccEntry P j k * v k))
      = (P.map (fun row => (rsum n (fun k => row.getD k 0 * (v k / colSum P k))) ^ 2
          / row.sum)).sum := by
  have e : ∀ j, j < n → v j / colSum P j * rsum n (fun k => ccEntry P j k * v k)
      = (P.map (fun row => (row.getD j 0 * (v j / colSum P j))
          * (rsum n (fun k => row.getD k 0 * (v k / colSum P k)) / row.sum))).sum := by
    intro j _
    rw [cc_apply, ← sum_map_mul_left]
    apply congrArg
    apply List.map_congr_left
    intro row _
    ring
  rw [rsum_congr n _ _ e, rsum_list_comm]
  apply congrArg
  apply List.map_congr_left
  intro row _
  rw [rsum_mul_right]
  ring

theorem cc_eigen_nonneg (P : List (List ℝ)) (n : Nat)
    (hnn : ∀ row ∈ P, ∀ x ∈ row, 0 ≤ x) (v : Nat → ℝ) (lam : ℝ)
    (hv : ∃ j, j < n ∧ colSum P j ≠ 0 ∧ v j ≠ 0)
    (heig : ∀ j, j < n → rsum n (fun k => ccEntry P j k * v k) = lam * v j) :
    0 ≤ lam := by
  have hD : 0 < rsum n (fun j => v j / colSum P j * v j) := by
    obtain ⟨j, hj, hc, hvj⟩ := hv
    have hterm : ∀ i ∈ List.range n, 0 ≤ v i / colSum P i * v i := by
      intro i _
      have : v i / colSum P i * v i = v i ^ 2 / colSum P i := by ring
      rw [this]; exact div_nonneg (sq_nonneg _) (colSum_nonneg P hnn i)
    have hle := single_le_sum_map (List.range n) (fun i => v i / colSum P i * v i) hterm j
      (List.mem_range.mpr hj)
    have hpos : 0 < v j / colSum P j * v j := by
      have : v j / colSum P j * v j = v j ^ 2 / colSum P j := by ring
      rw [this]
      exact div_pos (by positivity) (lt_of_le_of_ne (colSum_nonneg P hnn j) (Ne.symm hc))
    exact lt_of_lt_of_le hpos hle
  have hQ : lam * rsum n (fun j => v j / colSum P j * v j)
      = (P.map (fun row => (rsum n (fun k => row.getD k 0 * (v k / colSum P k))) ^ 2
          / row.sum)).sum := by
    rw [← cc_quad, ← rsum_mul_left]
    apply rsum_congr
    intro j hj
    rw [heig j hj]; ring
  have hQ0 : 0 ≤ lam * rsum n (fun j => v j / colSum P j * v j) := by
    rw [hQ]
    apply sum_map_nonneg
    intro row hrow
    exact div_nonneg (sq_nonneg _) (rowsum_nonneg row (hnn row hrow))
  by_contra hc
  rw [not_le] at hc
  have := mul_neg_of_neg_of_pos hc hD
  linarith

/-! ### Faddeev–LeVerrier, first step -/

theorem foldl_snd_head {β γ : Type} (f : β × List γ → Nat → β × List γ)
    (hf : ∀ acc k, ∃ c, (f acc k).2 = acc.2 ++ [c]) (l : List Nat) (acc : β × List γ)
    (hne : acc.2 ≠ []) :
    (l.foldl f acc).2.head? = acc.2.head? := by
  induction l generalizing acc with
  | nil => rfl
  | cons k t ih =>
    rw [List.foldl_cons]
    obtain ⟨c, hc⟩ := hf acc k
    rw [ih (f acc k) (by rw [hc]; simp), hc, List.head?_append_of_ne_nil _ hne]

/-- Right multiplication by the identity matrix. -/
theorem matMul_ident (A : List (List ℝ)) (n : Nat) (hn : 0 < n) (hsq : ∀ row ∈ A, row.length = n) :
    matMul A ((List.range n).map (fun i => (List.range n).map (fun j => if i = j then (1 : ℝ) else 0)))
      = A := by
  unfold matMul
  have hh : ((((List.range n).map (fun i => (List.range n).map
      (fun j => if i = j then (1 : ℝ) else 0))).head?).getD []).length = n := by
    cases n with
    | zero => omega
    | succ m => simp [List.range_succ_eq_map]
  rw [hh]
  conv_rhs => rw [← List.map_id A]
  apply List.map_congr_left
  intro row hrow
  simp only [id]
  conv_rhs => rw [list_eq_range_getD row, hsq row hrow]
  apply List.map_congr_left
  intro k hk
  have hk' : k < n := List.mem_range.mp hk
  rw [lsum_eq_sum]
  conv_lhs => rw [list_eq_range_getD row, hsq row hrow]
  rw [zipWith_map_map]
  have e : ∀ i, i < n → row.getD i 0
      * ((List.range n).map (fun j => if i = j then (1 : ℝ) else 0)).getD k 0
      = if i = k then row.getD i 0 else 0 := by
    intro i _
    rw [getD_map_range _ _ k hk']
    split <;> simp
  exact (rsum_congr n _ _ e).trans (rsum_ite_eq' n k hk' (fun i => row.getD i 0))

theorem charPoly_head (A : List (List ℝ)) (hne : A ≠ []) (hsq : ∀ row ∈ A, row.length = A.length) :
    (charPoly (fun k : Nat => (k : ℝ)) A).head? = some (-(matTrace A)) := by
  obtain ⟨m, hm⟩ : ∃ m, A.length = m + 1 :=
    ⟨A.length - 1, by have := List.length_pos_iff.mpr hne; omega⟩
  unfold charPoly
  simp only []
  rw [hm, List.range_succ_eq_map (n := m), List.foldl_cons]
  rw [foldl_snd_head]
  · rw [← List.range_succ_eq_map, ← hm]
    simp only [List.nil_append, List.head?_cons]
    rw [matMul_ident A A.length (by omega) hsq]
    simp
  · intro acc k
    exact ⟨_, rfl⟩
  · simp

end Dit.Lemmas.MaxCorr
