/-
Helper lemmas for `pruned_samplespace` / `expanded_samplespace` (Core/PruneExpand.lean, property
C11). Both functions end in the default constructor, `construct` with `sparse = trim = true`; the
facts about it are those of C01 (Lemmas/Construct.lean: `construct_ok_iff`, `finish`,
`get_finish_specified`, `get_finish_rest`, …). What is added here:

* names for the arguments the two functions pass to the constructor (`pruneKeys`, `pruneVal`,
  `prunedResult`; `expandAlphabets`, `expandedResult`) with `rfl`-lemmas `prunedDist_eq`,
  `expandedDist_eq`;
* the hypotheses on the source distribution as one bundle `Source` and what follows from
  `validate = none`;
* acceptance, lookups and mass of the two results; `isort` of a sorted list.

Property theorems are in Props/C11Prune.lean.
-/
import DitModel.Core.PruneExpand
import DitModel.Lemmas.Construct
import DitModel.Props.C01
import DitModel.Lemmas.Slots

set_option linter.unusedSectionVars false

namespace Dit.Lemmas.PruneExpand
open Dit Dit.Lemmas.Table Dit.Lemmas.Construct

/-! ### Small list facts -/

section Lists
variable {κ α β : Type}

theorem zip_map_graph (l : List κ) (F : κ → α) :
    l.zip (l.map F) = l.map (fun o => (o, F o)) := by
  induction l with
  | nil => rfl
  | cons x t ih => simp [ih]

theorem zip_keys_vals (t : Tab κ α) : (keys t).zip (vals t) = t := by
  induction t with
  | nil => rfl
  | cons r t ih =>
    show (r.1, r.2) :: (keys t).zip (vals t) = r :: t
    rw [ih]

theorem vals_map_graph (l : List κ) (F : κ → α) : vals (l.map (fun o => (o, F o))) = l.map F := by
  simp [vals, Function.comp_def]

/-- `lt`-sortedness in the sense `isort` produces it: no later element is below an earlier one. -/
def SortedBy (lt : β → β → Bool) (l : List β) : Prop := l.Pairwise (fun a b => lt b a = false)

/-- `isort` sorts, for an asymmetric `lt` whose complement is transitive (a strict weak order). -/
theorem isort_sorted (lt : β → β → Bool) (hasym : ∀ a b, lt a b = true → lt b a = false)
    (htr : ∀ a b c, lt b a = false → lt c b = false → lt c a = false) (l : List β) :
    SortedBy lt (isort lt l) :=
  isort_pairwise lt (fun a b => lt b a = false) hasym (fun _ _ h => h) htr l

/-- Sorting a sorted list changes nothing. -/
theorem isort_of_sorted (lt : β → β → Bool) {l : List β} (h : SortedBy lt l) : isort lt l = l := by
  induction l with
  | nil => rfl
  | cons x t ih =>
    have ht := ih (List.Pairwise.of_cons h)
    show isort.ins lt x (isort lt t) = x :: t
    rw [ht]
    cases t with
    | nil => rfl
    | cons y t' =>
      have : lt y x = false := (List.pairwise_cons.mp h).1 y List.mem_cons_self
      simp [isort.ins, this]

theorem isort_isort (lt : β → β → Bool) (hasym : ∀ a b, lt a b = true → lt b a = false)
    (htr : ∀ a b c, lt b a = false → lt c b = false → lt c a = false) (l : List β) :
    isort lt (isort lt l) = isort lt l :=
  isort_of_sorted lt (isort_sorted lt hasym htr l)

end Lists

section Tables
variable {κ α : Type} [DecidableEq κ] [AddCommMonoid α]

/-- A looked-up value is zero or a stored value. -/
theorem lookupD_zero_or_mem (t : Tab κ α) (k : κ) :
    lookupD 0 t k = 0 ∨ (k, lookupD 0 t k) ∈ t := by
  unfold lookupD
  cases h : lookup? t k with
  | none => exact Or.inl rfl
  | some v => exact Or.inr (mem_of_lookup?_eq_some h)

theorem lookupD_of_mem {t : Tab κ α} (hnd : (keys t).Nodup) {r : κ × α} (hr : r ∈ t) :
    lookupD 0 t r.1 = r.2 := by
  unfold lookupD
  rw [(lookup?_eq_some_iff hnd).mpr hr]; rfl

end Tables

/-! ### The source distribution -/

section Source
variable {σ α : Type} [DecidableEq σ] [AddCommMonoid α]

/-- What `validate = none` says. -/
theorem validate_none {cfg : NumCfg α} {d : Dist σ α} (h : d.validate cfg = none) :
    (∀ k ∈ keys d.tab, k ∈ d.space.toList) ∧ cfg.normOK d.base (lsum (vals d.tab)) = true ∧
      ∀ v ∈ vals d.tab, cfg.rangeOK d.base v = true := by
  unfold Dist.validate at h
  split at h
  · cases h
  split at h
  · cases h
  split at h
  · cases h
  rename_i h1 h2 h3
  refine ⟨?_, by simpa using h2, ?_⟩
  · have : (keys d.tab).all d.space.mem = true := by simpa using h1
    rw [List.all_eq_true] at this
    exact fun k hk => (Space.mem_iff _ _).mp (this k hk)
  · have : (vals d.tab).all (cfg.rangeOK d.base) = true := by simpa using h3
    exact List.all_eq_true.mp this

/-- The hypotheses on the distribution that is pruned or expanded. `space_nodup`, `keys_nodup`
and (with `valid`) membership of the stored outcomes hold for every well-formed state
(`Lemmas.Machine.WF`, in particular for every result of the constructor with distinct outcomes).
`rect`: all members of the sample space have one length (automatic for a Cartesian space; the
constructor checks it for an explicit one). `null_zero`: no stored value is a non-zero null —
`make_sparse(trim=True)` drops the stored nulls, which changes lookups and the total unless they
are exact zeros. -/
structure Source (cfg : NumCfg α) (d : Dist σ α) : Prop where
  space_nodup : d.space.toList.Nodup
  keys_nodup : (keys d.tab).Nodup
  valid : d.validate cfg = none
  rect : ∀ x ∈ d.space.toList, ∀ y ∈ d.space.toList, x.length = y.length
  null_zero : ∀ r ∈ d.tab, cfg.isNull d.base r.2 = true → r.2 = 0

/-- A well-formed, valid state is a source, given the two hypotheses that are not part of
well-formedness. -/
theorem Source.of_wf {cfg : NumCfg α} {d : Dist σ α} (hwf : Machine.WF d)
    (hv : d.validate cfg = none)
    (hrect : ∀ x ∈ d.space.toList, ∀ y ∈ d.space.toList, x.length = y.length)
    (hnull : ∀ r ∈ d.tab, cfg.isNull d.base r.2 = true → r.2 = 0) : Source cfg d :=
  ⟨hwf.nodup, hwf.keys_nodup, hv, hrect, hnull⟩

variable {cfg : NumCfg α} {d : Dist σ α}

theorem Source.keys_mem (h : Source cfg d) : ∀ k ∈ keys d.tab, k ∈ d.space.toList :=
  (validate_none h.valid).1

theorem Source.normOK (h : Source cfg d) : cfg.normOK d.base (lsum (vals d.tab)) = true :=
  (validate_none h.valid).2.1

theorem Source.rangeOK (h : Source cfg d) : ∀ v ∈ vals d.tab, cfg.rangeOK d.base v = true :=
  (validate_none h.valid).2.2

theorem get_of_mem_space {o : List σ} (ho : o ∈ d.space.toList) :
    d.get o = some (lookupD 0 d.tab o) := by
  rw [get_eq, if_pos ho]

theorem get_of_not_mem_space {o : List σ} (ho : o ∉ d.space.toList) : d.get o = none := by
  rw [get_eq, if_neg ho]

end Source

/-! ### `pruned_samplespace` -/

section Prune
variable {σ α : Type} [DecidableEq σ] [AddCommMonoid α]
variable (cfg : NumCfg α) (isNullExact : α → Bool) (symLt : σ → σ → Bool)
  (outLt : List σ → List σ → Bool) (d : Dist σ α) (keep : List (List σ))

/-- The value `zipped(mode='atoms')` pairs with a member of the sample space. -/
def pruneVal (o : List σ) : α := (d.get o).getD 0

/-- The outcomes `pruned_samplespace` keeps, in the order of the old sample space. -/
def pruneKeys : List (List σ) :=
  d.space.toList.filter (fun o => !isNullExact (pruneVal d o) || keep.contains o)

/-- The object `pruned_samplespace` builds. -/
def prunedResult : Dist σ α :=
  finish cfg (.expl (isort outLt (pruneKeys isNullExact d keep))) (pruneKeys isNullExact d keep)
    ((pruneKeys isNullExact d keep).map (pruneVal d)) d.base true true

theorem atoms_eq : d.atoms = d.space.toList.map (fun o => (o, pruneVal d o)) := rfl

theorem pruneRows_eq :
    d.atoms.filter (fun r => !isNullExact r.2 || keep.contains r.1)
      = (pruneKeys isNullExact d keep).map (fun o => (o, pruneVal d o)) := by
  rw [atoms_eq, List.filter_map]; rfl

/-- `prunedDist` is the constructor applied to the kept outcomes, their values, and the kept
outcomes as a `SampleSpace`. -/
theorem prunedDist_eq :
    prunedDist cfg isNullExact symLt outLt d keep
      = construct cfg symLt outLt (pruneKeys isNullExact d keep)
          ((pruneKeys isNullExact d keep).map (pruneVal d))
          (.sampleSpace (pruneKeys isNullExact d keep)) d.base true true := by
  unfold prunedDist
  simp only [pruneRows_eq, keys_map_graph, vals_map_graph]

theorem pruneVal_of_mem {o : List σ} (ho : o ∈ d.space.toList) :
    pruneVal d o = lookupD 0 d.tab o := by
  unfold pruneVal
  rw [get_of_mem_space ho]; rfl

theorem get_eq_pruneVal {o : List σ} (ho : o ∈ d.space.toList) : d.get o = some (pruneVal d o) := by
  rw [pruneVal_of_mem d ho, get_of_mem_space ho]

theorem pruneKeys_sublist : (pruneKeys isNullExact d keep).Sublist d.space.toList :=
  List.filter_sublist

theorem mem_space_of_mem_pruneKeys {o : List σ} (ho : o ∈ pruneKeys isNullExact d keep) :
    o ∈ d.space.toList :=
  (pruneKeys_sublist isNullExact d keep).subset ho

/-- Membership in the kept outcomes, for an exact null test. -/
theorem mem_pruneKeys (hex : ∀ v, isNullExact v = true ↔ v = 0) (o : List σ) :
    o ∈ pruneKeys isNullExact d keep ↔
      o ∈ d.space.toList ∧ (d.get o ≠ some 0 ∨ o ∈ keep) := by
  unfold pruneKeys
  rw [List.mem_filter]
  refine and_congr_right (fun ho => ?_)
  rw [get_eq_pruneVal d ho, Bool.or_eq_true, Bool.not_eq_true', List.contains_iff_mem,
    ← Bool.not_eq_true, hex]
  simp

variable {cfg isNullExact d}

/-- A value paired with a member of the space is zero whenever it is null. -/
theorem pruneVal_null_zero (hs : Source cfg d) {o : List σ} (ho : o ∈ d.space.toList)
    (hn : cfg.isNull d.base (pruneVal d o) = true) : pruneVal d o = 0 := by
  rw [pruneVal_of_mem d ho] at hn ⊢
  rcases lookupD_zero_or_mem d.tab o with h | h
  · exact h
  · exact hs.null_zero _ h hn

variable (cfg isNullExact d)

theorem prunedResult_tab :
    (prunedResult cfg isNullExact outLt d keep).tab
      = (sortBy (Space.expl (isort outLt (pruneKeys isNullExact d keep))).rank
          ((pruneKeys isNullExact d keep).map (fun o => (o, pruneVal d o)))).filter
            (fun r => !cfg.isNull d.base r.2) := by
  unfold prunedResult
  rw [finish_tab_trimmed, zip_map_graph]

variable {cfg isNullExact d}

/-- Every event has the same weight before and after pruning. -/
theorem wtBy_prunedResult (hs : Source cfg d) (hex : ∀ v, isNullExact v = true → v = 0)
    (p : List σ → Prop) [DecidablePred p] :
    wtBy p (prunedResult cfg isNullExact outLt d keep).tab = wtBy p d.tab := by
  rw [prunedResult_tab, wtBy_filter_of_zero, wtBy_sortBy, ← pruneRows_eq, wtBy_filter_of_zero,
    atoms_eq, wtBy_map_graph]
  · have := sum_map_wtBy_fibre hs.space_nodup (fun k : List σ => k) p d.tab hs.keys_mem
    rw [← this]
    congr 1
    apply List.map_congr_left
    intro o ho
    rw [pruneVal_of_mem d ho, lookupD_eq_wtBy hs.keys_nodup]
  · intro r _ hq
    have h := hq
    simp only [Bool.or_eq_false_iff, Bool.not_eq_false'] at h
    exact hex _ h.1
  · intro r hr hq
    have hr' := (sortBy_perm _ _).mem_iff.mp hr
    obtain ⟨o, ho, rfl⟩ := List.mem_map.mp hr'
    exact pruneVal_null_zero hs (mem_space_of_mem_pruneKeys isNullExact d keep ho)
      (by simpa using hq)

theorem mass_prunedResult (hs : Source cfg d) (hex : ∀ v, isNullExact v = true → v = 0) :
    mass (prunedResult cfg isNullExact outLt d keep).tab = mass d.tab := by
  rw [← wtBy_true, ← wtBy_true]
  exact wtBy_prunedResult outLt keep hs hex _

/-- The stored values of the pruned object are non-null stored values of the source. -/
theorem vals_prunedResult (h0 : cfg.isNull d.base 0 = true) :
    ∀ v ∈ vals (prunedResult cfg isNullExact outLt d keep).tab, v ∈ vals d.tab := by
  intro v hv
  obtain ⟨r, hr, rfl⟩ := List.mem_map.mp hv
  rw [prunedResult_tab, List.mem_filter] at hr
  obtain ⟨hr1, hr2⟩ := hr
  have hr' := (sortBy_perm _ _).mem_iff.mp hr1
  obtain ⟨o, ho, rfl⟩ := List.mem_map.mp hr'
  have hos := mem_space_of_mem_pruneKeys isNullExact d keep ho
  simp only [pruneVal_of_mem d hos] at hr2 ⊢
  rcases lookupD_zero_or_mem d.tab o with h | h
  · rw [h, h0] at hr2; cases hr2
  · exact List.mem_map.mpr ⟨_, h, rfl⟩

/-- **Acceptance.** -/
theorem prunedDist_ok (hs : Source cfg d) (hex : ∀ v, isNullExact v = true → v = 0)
    (h0 : cfg.isNull d.base 0 = true) :
    prunedDist cfg isNullExact symLt outLt d keep
      = .ok (prunedResult cfg isNullExact outLt d keep) := by
  rw [prunedDist_eq, construct_ok_iff]
  refine ⟨by simp, fun h => Bool.false_ne_true h.2, ?_, ?_, ?_, ?_, rfl⟩
  · rw [raggedArg_eq_false_iff]
    intro x hx y hy
    exact hs.rect x (mem_space_of_mem_pruneKeys isNullExact d keep hx) y
      (mem_space_of_mem_pruneKeys isNullExact d keep hy)
  · intro o ho
    exact mem_isort.mpr ho
  · have hm := mass_prunedResult outLt keep hs hex
    rw [mass_eq_lsum_vals, mass_eq_lsum_vals] at hm
    show cfg.normOK d.base (lsum (vals (prunedResult cfg isNullExact outLt d keep).tab)) = true
    rw [hm]; exact hs.normOK
  · intro v hv
    exact hs.rangeOK v (vals_prunedResult outLt keep h0 v hv)

theorem pruneKeys_nodup (hs : Source cfg d) : (pruneKeys isNullExact d keep).Nodup :=
  hs.space_nodup.sublist (pruneKeys_sublist isNullExact d keep)

variable (cfg isNullExact)

@[simp] theorem prunedResult_space :
    (prunedResult cfg isNullExact outLt d keep).space
      = .expl (isort outLt (pruneKeys isNullExact d keep)) := finish_space ..

@[simp] theorem prunedResult_base :
    (prunedResult cfg isNullExact outLt d keep).base = d.base := finish_base ..

@[simp] theorem prunedResult_sparse :
    (prunedResult cfg isNullExact outLt d keep).sparse = true := finish_sparse ..

theorem mem_prunedResult_space (o : List σ) :
    o ∈ (prunedResult cfg isNullExact outLt d keep).space.toList
      ↔ o ∈ pruneKeys isNullExact d keep := by
  rw [prunedResult_space]; exact mem_isort

variable {cfg isNullExact}

/-- **Lookup** of a kept outcome: the old value. -/
theorem get_prunedResult (hs : Source cfg d) {o : List σ}
    (ho : o ∈ pruneKeys isNullExact d keep) :
    (prunedResult cfg isNullExact outLt d keep).get o = d.get o := by
  have hos := mem_space_of_mem_pruneKeys isNullExact d keep ho
  obtain ⟨i, hi⟩ := List.mem_iff_getElem?.mp ho
  have hp : ((pruneKeys isNullExact d keep).map (pruneVal d))[i]? = some (pruneVal d o) := by
    rw [List.getElem?_map, hi]; rfl
  have := get_finish_specified cfg (.expl (isort outLt (pruneKeys isNullExact d keep)))
    (pruneKeys isNullExact d keep) _ d.base true true (pruneKeys_nodup keep hs)
    (show o ∈ (Space.expl (isort outLt (pruneKeys isNullExact d keep))).toList from
      mem_isort.mpr ho) hi hp
  rw [get_eq_pruneVal d hos]
  refine this.trans (congrArg some ?_)
  by_cases hn : cfg.isNull d.base (pruneVal d o) = true
  · rw [if_pos ⟨rfl, rfl, hn⟩, pruneVal_null_zero hs hos hn]
  · rw [if_neg (fun h => hn h.2.2)]

/-- **Lookup** of anything else: `InvalidOutcome`. -/
theorem get_prunedResult_outside {o : List σ} (ho : o ∉ pruneKeys isNullExact d keep) :
    (prunedResult cfg isNullExact outLt d keep).get o = none :=
  get_finish_outside cfg _ _ _ _ _ _ (fun h => ho (mem_isort.mp h))

/-- The pruned object is a well-formed state (`Lemmas.Machine.WF`). -/
theorem wf_prunedResult (hs : Source cfg d) :
    Machine.WF (prunedResult cfg isNullExact outLt d keep) :=
  Machine.wf_construct_core cfg (.expl (isort outLt (pruneKeys isNullExact d keep)))
    (nodup_isort.mpr (pruneKeys_nodup keep hs)) (pruneKeys isNullExact d keep) _
    (pruneKeys_nodup keep hs) (fun _ ho => mem_isort.mpr ho) d.base true true

/-- The pruned object is again a source (so it can be pruned or expanded again). -/
theorem source_prunedResult (hs : Source cfg d) (hex : ∀ v, isNullExact v = true → v = 0)
    (h0 : cfg.isNull d.base 0 = true) :
    Source cfg (prunedResult cfg isNullExact outLt d keep) := by
  have hwf := wf_prunedResult outLt keep (isNullExact := isNullExact) hs
  refine Source.of_wf hwf ?_ ?_ ?_
  · exact Props.C01.construct_valid cfg (fun _ _ => false) outLt _ _ _ _ _ _ _
      (prunedDist_eq cfg isNullExact (fun _ _ => false) outLt d keep ▸
        prunedDist_ok (fun _ _ => false) outLt keep hs hex h0)
  · intro x hx y hy
    rw [mem_prunedResult_space] at hx hy
    exact hs.rect x (mem_space_of_mem_pruneKeys isNullExact d keep hx) y
      (mem_space_of_mem_pruneKeys isNullExact d keep hy)
  · intro r hr hn
    rw [prunedResult_tab, List.mem_filter] at hr
    rw [prunedResult_base] at hn
    rw [hn] at hr
    exact absurd hr.2 (by simp)

end Prune

/-! ### Pruning twice -/

section Idem
variable {σ α : Type} [DecidableEq σ] [AddCommMonoid α]
variable {cfg : NumCfg α} {isNullExact : α → Bool} (outLt : List σ → List σ → Bool)
  {d : Dist σ α}

/-- With nothing kept explicitly, every kept outcome has a non-zero value, so pruning the pruned
object keeps all of its sample space; sorting it again changes nothing. -/
theorem prunedResult_idem (hs : Source cfg d) (hex : ∀ v, isNullExact v = true ↔ v = 0)
    (hasym : ∀ a b, outLt a b = true → outLt b a = false)
    (htr : ∀ a b c, outLt b a = false → outLt c b = false → outLt c a = false) :
    prunedResult cfg isNullExact outLt (prunedResult cfg isNullExact outLt d []) []
      = prunedResult cfg isNullExact outLt d [] := by
  set K := pruneKeys isNullExact d [] with hK
  set T := prunedResult cfg isNullExact outLt d [] with hT
  have hKnd : K.Nodup := pruneKeys_nodup [] hs
  have hval : ∀ o ∈ K, pruneVal T o = pruneVal d o := by
    intro o ho
    unfold pruneVal
    rw [hT, get_prunedResult outLt [] hs ho]
  have hK' : pruneKeys isNullExact T [] = isort outLt K := by
    unfold pruneKeys
    rw [hT, prunedResult_space, ← hT]
    show (isort outLt K).filter _ = _
    rw [List.filter_eq_self]
    intro o ho
    have hoK : o ∈ K := mem_isort.mp ho
    have h1 := ((mem_pruneKeys isNullExact d [] hex o).mp hoK)
    rcases h1.2 with h2 | h2
    · rw [hval o hoK]
      have : pruneVal d o ≠ 0 := by
        intro e
        apply h2
        rw [get_eq_pruneVal d h1.1, e]
      have : isNullExact (pruneVal d o) = false := by
        rw [← Bool.not_eq_true, hex]; exact this
      simp [this]
    · cases h2
  have hsp : (Space.expl (isort outLt (isort outLt K))) = Space.expl (isort outLt K) := by
    rw [isort_isort outLt hasym htr]
  apply Machine.dist_eq
  · rw [prunedResult_space, prunedResult_space, hK', ← hK, hsp]
  · rw [prunedResult_tab, prunedResult_tab, hK', ← hK, hsp, prunedResult_base]
    congr 1
    have hL := Machine.rank_pairwise (Space.expl (isort outLt K)) (nodup_isort.mpr hKnd)
    rw [Machine.sortBy_eq_tabOf _ _ hL _ (by rw [keys_map_graph]; exact nodup_isort.mpr hKnd)
        (by rw [keys_map_graph]; exact fun k hk => hk),
      Machine.sortBy_eq_tabOf _ _ hL _ (by rw [keys_map_graph]; exact hKnd)
        (by rw [keys_map_graph]; exact fun k hk => mem_isort.mpr hk)]
    apply Machine.tabOf_congr
    intro k hk
    have hkK : k ∈ K := mem_isort.mp hk
    rw [lookup?_map_graph, lookup?_map_graph, if_pos (show k ∈ isort outLt K from hk), if_pos hkK,
      hval k hkK]
  · rw [prunedResult_sparse, prunedResult_sparse]
  · rw [prunedResult_base]

end Idem

/-! ### `expanded_samplespace` -/

section Expand
variable {σ α : Type} [DecidableEq σ] [AddCommMonoid α]
variable (cfg : NumCfg α) (symLt : σ → σ → Bool) (outLt : List σ → List σ → Bool)
  (d : Dist σ α) (union : Bool)

/-- The alphabets `expanded_samplespace` passes to `CartesianProduct`: the sorted alphabets of the
old sample space, or as many copies of their sorted union. -/
def expandAlphabets : List (List σ) :=
  if union then
    (d.space.alphabets.map (isort symLt)).map
      (fun _ => unionAlphabet symLt (d.space.alphabets.map (isort symLt)))
  else d.space.alphabets.map (isort symLt)

/-- The object `expanded_samplespace` builds. -/
def expandedResult : Dist σ α :=
  finish cfg (.cart ((expandAlphabets symLt d union).map (isort symLt))) (keys d.tab) (vals d.tab)
    d.base true true

theorem expandedDist_eq :
    expandedDist cfg symLt outLt d union
      = construct cfg symLt outLt (keys d.tab) (vals d.tab)
          (.cartesian (expandAlphabets symLt d union)) d.base true true := rfl

theorem length_expandAlphabets :
    (expandAlphabets symLt d union).length = d.space.alphabets.length := by
  unfold expandAlphabets
  cases union <;> simp

theorem mem_unionAlphabet {as : List (List σ)} {s : σ} :
    s ∈ unionAlphabet symLt as ↔ ∃ a ∈ as, s ∈ a := by
  unfold unionAlphabet
  rw [mem_isort, mem_dedup, List.mem_flatten]

/-- Members of a rectangular sample space: one symbol per alphabet, each from its alphabet. -/
theorem mem_alphabets_of_mem_space {sp : Space σ}
    (hrect : ∀ x ∈ sp.toList, ∀ y ∈ sp.toList, x.length = y.length) {o : List σ}
    (ho : o ∈ sp.toList) :
    o.length = sp.alphabets.length ∧
      ∀ (i : Nat) (h1 : i < o.length) (h2 : i < sp.alphabets.length), o[i] ∈ sp.alphabets[i] := by
  cases sp with
  | cart as => exact mem_cartesian_iff_getElem.mp ho
  | expl os =>
    have hs : sameLength os = true := sameLength_iff.mpr hrect
    refine ⟨length_eq_length_alphabetsOf hs ho, fun i h1 h2 => ?_⟩
    exact (mem_alphabetsOf (List.getElem?_eq_getElem h2) _).mpr
      ⟨o, ho, List.getElem?_eq_getElem h1⟩

/-- Every member of the old sample space is a member of the expanded one. -/
theorem mem_expanded_of_mem_space
    (hrect : ∀ x ∈ d.space.toList, ∀ y ∈ d.space.toList, x.length = y.length) {o : List σ}
    (ho : o ∈ d.space.toList) :
    o ∈ cartesian ((expandAlphabets symLt d union).map (isort symLt)) := by
  obtain ⟨hlen, hmem⟩ := mem_alphabets_of_mem_space hrect ho
  rw [mem_cartesian_iff_getElem]
  refine ⟨by rw [List.length_map, length_expandAlphabets]; exact hlen, fun i h1 h2 => ?_⟩
  have h3 : i < d.space.alphabets.length := by rw [← hlen]; exact h1
  rw [List.getElem_map, mem_isort]
  have key : ∀ (L : List (List σ)) (hL : L = expandAlphabets symLt d union) (h4 : i < L.length),
      o[i] ∈ L[i] := by
    intro L hL h4
    unfold expandAlphabets at hL
    cases union with
    | false =>
      simp only [Bool.false_eq_true, if_false] at hL
      subst hL
      rw [List.getElem_map, mem_isort]
      exact hmem i h1 h3
    | true =>
      simp only [if_true] at hL
      subst hL
      rw [List.getElem_map, mem_unionAlphabet]
      exact ⟨isort symLt d.space.alphabets[i], List.mem_map.mpr ⟨_, List.getElem_mem h3, rfl⟩,
        mem_isort.mpr (hmem i h1 h3)⟩
  exact key _ rfl _

variable {cfg d}

theorem expandedResult_tab :
    (expandedResult cfg symLt d union).tab
      = (sortBy (Space.cart ((expandAlphabets symLt d union).map (isort symLt))).rank d.tab).filter
          (fun r => !cfg.isNull d.base r.2) := by
  unfold expandedResult
  rw [finish_tab_trimmed, zip_keys_vals]

theorem wtBy_expandedResult (hs : Source cfg d) (p : List σ → Prop) [DecidablePred p] :
    wtBy p (expandedResult cfg symLt d union).tab = wtBy p d.tab := by
  rw [expandedResult_tab, wtBy_filter_of_zero, wtBy_sortBy]
  intro r hr hq
  exact hs.null_zero r ((sortBy_perm _ _).mem_iff.mp hr) (by simpa using hq)

theorem mass_expandedResult (hs : Source cfg d) :
    mass (expandedResult cfg symLt d union).tab = mass d.tab := by
  rw [← wtBy_true, ← wtBy_true]
  exact wtBy_expandedResult symLt union hs _

/-- **Acceptance.** -/
theorem expandedDist_ok (hs : Source cfg d) :
    expandedDist cfg symLt outLt d union = .ok (expandedResult cfg symLt d union) := by
  rw [expandedDist_eq, construct_ok_iff]
  refine ⟨by simp [keys, vals], fun h => Bool.false_ne_true h.2, rfl, ?_, ?_, ?_, rfl⟩
  · intro o ho
    exact mem_expanded_of_mem_space symLt d union hs.rect (hs.keys_mem o ho)
  · have hm := mass_expandedResult symLt union hs
    rw [mass_eq_lsum_vals, mass_eq_lsum_vals] at hm
    show cfg.normOK d.base (lsum (vals (expandedResult cfg symLt d union).tab)) = true
    rw [hm]; exact hs.normOK
  · intro v hv
    apply hs.rangeOK
    change v ∈ vals (expandedResult cfg symLt d union).tab at hv
    obtain ⟨r, hr, rfl⟩ := List.mem_map.mp hv
    rw [expandedResult_tab, List.mem_filter] at hr
    exact List.mem_map.mpr ⟨r, (sortBy_perm _ _).mem_iff.mp hr.1, rfl⟩

variable (cfg)

@[simp] theorem expandedResult_space :
    (expandedResult cfg symLt d union).space
      = .cart ((expandAlphabets symLt d union).map (isort symLt)) := finish_space ..

@[simp] theorem expandedResult_base : (expandedResult cfg symLt d union).base = d.base :=
  finish_base ..

variable {cfg}

/-- **Lookup** of a member of the old sample space: the old value. -/
theorem get_expandedResult (hs : Source cfg d) {o : List σ} (ho : o ∈ d.space.toList) :
    (expandedResult cfg symLt d union).get o = d.get o := by
  have hN := mem_expanded_of_mem_space symLt d union hs.rect ho
  rw [get_of_mem_space ho]
  by_cases hk : o ∈ keys d.tab
  · obtain ⟨i, hi⟩ := List.mem_iff_getElem?.mp hk
    have hlt : i < d.tab.length := by
      have := (List.getElem?_eq_some_iff.mp hi).1
      simpa [keys] using this
    have hi1 : (keys d.tab)[i]? = some d.tab[i].1 := by
      unfold keys; rw [List.getElem?_map, List.getElem?_eq_getElem hlt]; rfl
    have hi2 : (vals d.tab)[i]? = some d.tab[i].2 := by
      unfold vals; rw [List.getElem?_map, List.getElem?_eq_getElem hlt]; rfl
    have ho' : d.tab[i].1 = o := by rw [hi1] at hi; exact Option.some.inj hi
    have hr : d.tab[i] ∈ d.tab := List.getElem_mem hlt
    have := get_finish_specified cfg (.cart ((expandAlphabets symLt d union).map (isort symLt)))
      (keys d.tab) (vals d.tab) d.base true true hs.keys_nodup
      (show o ∈ (Space.cart ((expandAlphabets symLt d union).map (isort symLt))).toList from hN)
      hi hi2
    refine this.trans (congrArg some ?_)
    rw [← ho', lookupD_of_mem hs.keys_nodup hr]
    by_cases hn : cfg.isNull d.base d.tab[i].2 = true
    · rw [if_pos ⟨rfl, rfl, hn⟩, hs.null_zero _ hr hn]
    · rw [if_neg (fun h => hn h.2.2)]
  · rw [lookupD_of_not_mem 0 hk]
    exact get_finish_rest cfg _ _ _ _ _ _ hN hk

/-- **Lookup** of a new member: the null probability. -/
theorem get_expandedResult_new (hs : Source cfg d) {o : List σ}
    (hN : o ∈ cartesian ((expandAlphabets symLt d union).map (isort symLt)))
    (ho : o ∉ d.space.toList) :
    (expandedResult cfg symLt d union).get o = some 0 :=
  get_finish_rest cfg _ _ _ _ _ _ hN (fun hk => ho (hs.keys_mem o hk))

/-- **Lookup** outside the expanded space: `InvalidOutcome`. -/
theorem get_expandedResult_outside {o : List σ}
    (hN : o ∉ cartesian ((expandAlphabets symLt d union).map (isort symLt))) :
    (expandedResult cfg symLt d union).get o = none :=
  get_finish_outside cfg _ _ _ _ _ _ hN

/-- With a sensible symbol order the second sort of the alphabets (the one the constructor
applies to a `CartesianProduct`) changes nothing. -/
theorem expandAlphabets_sorted (hasym : ∀ a b, symLt a b = true → symLt b a = false)
    (htr : ∀ a b c, symLt b a = false → symLt c b = false → symLt c a = false) :
    (expandAlphabets symLt d union).map (isort symLt) = expandAlphabets symLt d union := by
  conv_rhs => rw [← List.map_id (expandAlphabets symLt d union)]
  apply List.map_congr_left
  intro a ha
  unfold expandAlphabets at ha
  cases union with
  | false =>
    simp only [Bool.false_eq_true, if_false] at ha
    obtain ⟨b, _, rfl⟩ := List.mem_map.mp ha
    exact isort_isort symLt hasym htr b
  | true =>
    simp only [if_true] at ha
    obtain ⟨b, _, rfl⟩ := List.mem_map.mp ha
    exact isort_isort symLt hasym htr _

end Expand

/-! ### Concrete data for the non-vacuity examples of Props/C11Prune.lean -/

/-- A sparse distribution on `{0,1}²` that stores two of the four members of its sample space
(`[0,1]` and `[1,0]` have probability zero and are not stored). -/
def exSrc : Dist Nat Rat :=
  { space := .cart [[0, 1], [0, 1]],
    tab := [([0, 0], 1 / 4), ([1, 1], 3 / 4)],
    sparse := true, base := .linear }

/-- Exact null test at `Rat`. -/
def exNull : Rat → Bool := fun v => decide (v = 0)

theorem exSrc_source : Source ratCfg exSrc := by
  refine ⟨by decide, by decide, by decide +kernel, by decide, ?_⟩
  intro r hr hn
  simpa [ratCfg] using hn

/-- The same table on an explicit, unsorted sample space with a zero-probability member. -/
def exSrc2 : Dist Nat Rat :=
  { space := .expl [[1, 1], [0, 2], [0, 0]],
    tab := [([1, 1], 3 / 4), ([0, 0], 1 / 4)],
    sparse := true, base := .linear }

theorem exSrc2_source : Source ratCfg exSrc2 := by
  refine ⟨by decide, by decide, by decide +kernel, by decide, ?_⟩
  intro r hr hn
  simpa [ratCfg] using hn

theorem exNull_exact (v : Rat) : exNull v = true ↔ v = 0 := by simp [exNull]

/-! ### The orders of the examples are strict weak orders -/

theorem lexLt_tri (a b : List Nat) : lexLt a b = true ∨ a = b ∨ lexLt b a = true := by
  induction a generalizing b with
  | nil => cases b <;> simp [lexLt]
  | cons x a ih =>
    cases b with
    | nil => simp [lexLt]
    | cons y b =>
      rcases Nat.lt_trichotomy x y with h | h | h
      · left; simp [lexLt, h]
      · subst h
        rcases ih b with h | h | h
        · left; simp [lexLt, h]
        · right; left; rw [h]
        · right; right; simp [lexLt, h]
      · right; right; simp [lexLt, h]

theorem lexLt_asymm (a b : List Nat) (h : lexLt a b = true) : lexLt b a = false := by
  rw [← Bool.not_eq_true]
  intro h'
  have := Slots.lexLt_trans a b a h h'
  rw [Slots.lexLt_irrefl] at this
  cases this

theorem lexLt_negtrans (a b c : List Nat) (h1 : lexLt b a = false) (h2 : lexLt c b = false) :
    lexLt c a = false := by
  rw [← Bool.not_eq_true]
  intro h
  rcases lexLt_tri a b with hab | rfl | hba
  · rcases lexLt_tri b c with hbc | rfl | hcb
    · have := Slots.lexLt_trans a b c hab hbc
      rw [lexLt_asymm c a h] at this; cases this
    · rw [lexLt_asymm a b hab] at h; cases h
    · rw [hcb] at h2; cases h2
  · rw [h] at h2; cases h2
  · rw [hba] at h1; cases h1

theorem natLt_asymm (a b : Nat) (h : natLt a b = true) : natLt b a = false := by
  simp only [natLt, decide_eq_true_eq, decide_eq_false_iff_not] at h ⊢
  omega

theorem natLt_negtrans (a b c : Nat) (h1 : natLt b a = false) (h2 : natLt c b = false) :
    natLt c a = false := by
  simp only [natLt, decide_eq_false_iff_not] at h1 h2 ⊢
  omega

end Dit.Lemmas.PruneExpand
