/-
Helper lemmas for C04/C05: variable sets (`vnorm`, `vunion`, ...), the algebra of entropy
combinations (`Comb.eval` is additive / homogeneous, `Comb.canon` preserves it), and the
purely algebraic consequences of submodularity (`cmi ≥ 0` ⇒ `tc, dtc, caekl ≥ 0`).
No probability here: `H : VSet → R` is an arbitrary set function.
-/
import DitModel.Core.Info
import Mathlib.Algebra.BigOperators.Group.List.Basic
import Mathlib.Algebra.Order.Field.Basic
import Mathlib.Data.List.Sort
import Mathlib.Data.Rat.Cast.Order
import Mathlib.Tactic.Ring
import Mathlib.Tactic.Linarith

set_option linter.unusedSectionVars false

namespace Dit.Lemmas.InfoAlg
open Dit

/-! ### Sequential sums -/

theorem lsum_eq_sum {α : Type} [AddMonoid α] (l : List α) : lsum l = l.sum := by
  unfold lsum
  exact (List.sum_eq_foldl).symm

/-! ### `isort`, `dedup`, `vnorm` -/

section Sets
variable {β : Type}

theorem ins_perm (lt : β → β → Bool) (x : β) (l : List β) :
    (isort.ins lt x l).Perm (x :: l) := by
  induction l with
  | nil => simp [isort.ins]
  | cons y t ih =>
    unfold isort.ins
    split
    · exact (List.Perm.cons y ih).trans (List.Perm.swap x y t)
    · exact List.Perm.refl _

theorem isort_perm (lt : β → β → Bool) (l : List β) : (isort lt l).Perm l := by
  induction l with
  | nil => simp [isort]
  | cons x t ih =>
    unfold isort
    exact (ins_perm lt x _).trans (List.Perm.cons x ih)

theorem mem_isort (lt : β → β → Bool) (l : List β) (x : β) : x ∈ isort lt l ↔ x ∈ l :=
  (isort_perm lt l).mem_iff

theorem mem_dedup [DecidableEq β] (l : List β) (x : β) : x ∈ dedup l ↔ x ∈ l := by
  induction l with
  | nil => simp [dedup]
  | cons y t ih =>
    unfold dedup
    by_cases h : x = y
    · simp [h]
    · simp [h, ih]

theorem nodup_dedup [DecidableEq β] (l : List β) : (dedup l).Nodup := by
  induction l with
  | nil => simp [dedup]
  | cons y t ih =>
    unfold dedup
    refine List.nodup_cons.mpr ⟨by simp, ih.filter _⟩

private abbrev ltN : Nat → Nat → Bool := fun x y => decide (x < y)

theorem ins_sorted (x : Nat) (l : List Nat) (h : l.Pairwise (· ≤ ·)) :
    (isort.ins ltN x l).Pairwise (· ≤ ·) := by
  induction l with
  | nil => simp [isort.ins]
  | cons y t ih =>
    unfold isort.ins
    have ht := (List.pairwise_cons.mp h)
    split
    · rename_i hyx
      have hyx' : y < x := by simpa [ltN] using hyx
      refine List.pairwise_cons.mpr ⟨?_, ih ht.2⟩
      intro z hz
      rcases (List.mem_cons.mp ((ins_perm ltN x t).mem_iff.mp hz)) with rfl | hz
      · exact Nat.le_of_lt hyx'
      · exact ht.1 z hz
    · rename_i hyx
      have hxy : x ≤ y := by simpa [ltN] using hyx
      refine List.pairwise_cons.mpr ⟨?_, h⟩
      intro z hz
      rcases List.mem_cons.mp hz with rfl | hz
      · exact hxy
      · exact Nat.le_trans hxy (ht.1 z hz)

theorem isort_sorted (l : List Nat) : (isort ltN l).Pairwise (· ≤ ·) := by
  induction l with
  | nil => simp [isort]
  | cons x t ih => unfold isort; exact ins_sorted x _ ih

theorem vnorm_sorted (a : List Nat) : (vnorm a).Pairwise (· < ·) := by
  have h1 : (vnorm a).Pairwise (· ≤ ·) := isort_sorted _
  have h2 : (vnorm a).Nodup := (isort_perm _ _).nodup_iff.mpr (nodup_dedup a)
  have := h1.and h2
  refine this.imp ?_
  intro x y hxy
  exact Nat.lt_of_le_of_ne hxy.1 hxy.2

theorem mem_vnorm (a : List Nat) (x : Nat) : x ∈ vnorm a ↔ x ∈ a := by
  unfold vnorm
  rw [mem_isort, mem_dedup]

theorem mem_vunion (a b : List Nat) (x : Nat) : x ∈ vunion a b ↔ x ∈ a ∨ x ∈ b := by
  unfold vunion; rw [mem_vnorm]; simp

theorem mem_vunions (l : List (List Nat)) (x : Nat) : x ∈ vunions l ↔ ∃ g ∈ l, x ∈ g := by
  unfold vunions; rw [mem_vnorm]; simp

theorem mem_vdiff (a b : List Nat) (x : Nat) : x ∈ vdiff a b ↔ x ∈ a ∧ x ∉ b := by
  unfold vdiff; simp

theorem vsubset_iff (a b : List Nat) : vsubset a b = true ↔ ∀ x ∈ a, x ∈ b := by
  unfold vsubset; simp

/-- Two strictly sorted lists with the same elements are equal. -/
theorem sorted_ext {l₁ l₂ : List Nat} (h₁ : l₁.Pairwise (· < ·)) (h₂ : l₂.Pairwise (· < ·))
    (h : ∀ x, x ∈ l₁ ↔ x ∈ l₂) : l₁ = l₂ :=
  List.Pairwise.eq_of_mem_iff h₁ h₂ h

/-- `vnorm` is a canonical form for the *set* of elements. -/
theorem vnorm_congr {a b : List Nat} (h : ∀ x, x ∈ a ↔ x ∈ b) : vnorm a = vnorm b :=
  sorted_ext (vnorm_sorted a) (vnorm_sorted b) (by intro x; rw [mem_vnorm, mem_vnorm]; exact h x)

theorem vnorm_eq_iff {a b : List Nat} : vnorm a = vnorm b ↔ ∀ x, x ∈ a ↔ x ∈ b := by
  refine ⟨fun h x => ?_, vnorm_congr⟩
  rw [← mem_vnorm a, ← mem_vnorm b, h]

theorem vnorm_idem (a : List Nat) : vnorm (vnorm a) = vnorm a :=
  vnorm_congr (mem_vnorm a)

theorem vnorm_of_sorted {a : List Nat} (h : a.Pairwise (· < ·)) : vnorm a = a :=
  sorted_ext (vnorm_sorted a) h (mem_vnorm a)

theorem vunion_congr {a b a' b' : List Nat} (h : ∀ x, (x ∈ a ∨ x ∈ b) ↔ (x ∈ a' ∨ x ∈ b')) :
    vunion a b = vunion a' b' := by
  unfold vunion
  exact vnorm_congr (by intro x; simpa using h x)

/-- The set fact behind dit's shortcut `X ⊆ Z ⇒ H(X|Z) = 0`. -/
theorem vunion_of_subset {X Z : List Nat} (h : vsubset (vnorm X) (vnorm Z) = true) :
    vunion X Z = vnorm Z := by
  unfold vunion
  refine vnorm_congr ?_
  intro x
  have := (vsubset_iff _ _).mp h x
  rw [mem_vnorm, mem_vnorm] at this
  simp only [List.mem_append]
  exact ⟨fun hx => hx.elim this id, Or.inr⟩

end Sets

/-! ### Sums over `accum` / `pushforward` -/

section Push
variable {κ κ' α M : Type} [DecidableEq κ] [Add α] [AddCommMonoid M]

theorem sum_accum (φ : κ → α → M) (hφ : ∀ k v v', φ k (v + v') = φ k v + φ k v')
    (acc : Tab κ α) (k : κ) (v : α) :
    ((accum acc k v).map (fun r => φ r.1 r.2)).sum
      = (acc.map (fun r => φ r.1 r.2)).sum + φ k v := by
  induction acc with
  | nil => simp [accum]
  | cons r t ih =>
    obtain ⟨k', v'⟩ := r
    unfold accum
    split
    · rename_i h
      subst h
      simp [hφ, add_assoc, add_comm]
    · simp [ih, add_assoc]

theorem sum_foldl_accum (φ : κ → α → M) (hφ : ∀ k v v', φ k (v + v') = φ k v + φ k v')
    (f : κ' → κ) (t : Tab κ' α) (acc : Tab κ α) :
    ((t.foldl (fun acc r => accum acc (f r.1) r.2) acc).map (fun r => φ r.1 r.2)).sum
      = (acc.map (fun r => φ r.1 r.2)).sum + (t.map (fun r => φ (f r.1) r.2)).sum := by
  induction t generalizing acc with
  | nil => simp
  | cons r t ih =>
    simp only [List.foldl_cons, List.map_cons, List.sum_cons]
    rw [ih, sum_accum φ hφ, add_assoc]

/-- A row-wise sum of a function additive in the value is unchanged by `pushforward`. -/
theorem sum_pushforward (φ : κ → α → M) (hφ : ∀ k v v', φ k (v + v') = φ k v + φ k v')
    (f : κ' → κ) (t : Tab κ' α) :
    ((pushforward f t).map (fun r => φ r.1 r.2)).sum = (t.map (fun r => φ (f r.1) r.2)).sum := by
  unfold pushforward
  rw [sum_foldl_accum φ hφ]
  simp

end Push

theorem sum_map_filter_of_zero {β M : Type} [AddCommMonoid M] (p : β → Bool) (g : β → M)
    (l : List β) (h : ∀ x ∈ l, p x = false → g x = 0) :
    ((l.filter p).map g).sum = (l.map g).sum := by
  induction l with
  | nil => simp
  | cons x t ih =>
    have ht : ∀ y ∈ t, p y = false → g y = 0 := fun y hy => h y (List.mem_cons_of_mem _ hy)
    by_cases hp : p x = true
    · simp [hp, ih ht]
    · have hp' : p x = false := by simpa using hp
      simp [hp', ih ht, h x List.mem_cons_self hp']

/-! ### `Comb.eval` -/

section Eval
variable {R : Type} [CommRing R] (cast : ℚ →+* R) (H : VSet → R)

theorem eval_eq_sum (c : Comb) :
    Comb.eval cast H c = (c.map (fun r => cast r.1 * H r.2)).sum := lsum_eq_sum _

@[simp] theorem eval_nil : Comb.eval cast H [] = 0 := by simp [eval_eq_sum]

@[simp] theorem eval_cons (r : Rat × VSet) (c : Comb) :
    Comb.eval cast H (r :: c) = cast r.1 * H r.2 + Comb.eval cast H c := by
  simp [eval_eq_sum]

/-- `eval` is additive. -/
@[simp] theorem eval_append (a b : Comb) :
    Comb.eval cast H (a ++ b) = Comb.eval cast H a + Comb.eval cast H b := by
  simp [eval_eq_sum]

theorem eval_add (a b : Comb) :
    Comb.eval cast H (Comb.add a b) = Comb.eval cast H a + Comb.eval cast H b :=
  eval_append cast H a b

/-- `eval` is homogeneous. -/
@[simp] theorem eval_scale (q : Rat) (c : Comb) :
    Comb.eval cast H (Comb.scale q c) = cast q * Comb.eval cast H c := by
  induction c with
  | nil => simp [Comb.scale]
  | cons r t ih =>
    have : Comb.scale q (r :: t) = (q * r.1, r.2) :: Comb.scale q t := rfl
    rw [this, eval_cons, eval_cons, ih]
    simp only [map_mul]
    ring

@[simp] theorem eval_sum (l : List Comb) :
    Comb.eval cast H (Comb.sum l) = (l.map (Comb.eval cast H)).sum := by
  induction l with
  | nil => simp [Comb.sum]
  | cons c t ih =>
    have : Comb.sum (c :: t) = c ++ Comb.sum t := rfl
    rw [this, eval_append, ih]; simp

/-- Conditional entropy `H(X|Z) = H(X ∪ Z) − H(Z)` of a set function. -/
def Hc (X Z : VSet) : R := H (vunion X Z) - H (vnorm Z)

/-- `condH` evaluates to `H(X ∪ Z) − H(Z)`, including dit's shortcut case `X ⊆ Z`
(where `vunion X Z = vnorm Z`, so the difference is 0). -/
@[simp] theorem eval_condH (X Z : VSet) : Comb.eval cast H (condH X Z) = Hc H X Z := by
  unfold condH Hc
  split
  · rename_i h
    rw [vunion_of_subset h]; simp
  · simp; ring

theorem Hc_congr {X X' Z Z' : VSet} (hZ : ∀ x, x ∈ Z ↔ x ∈ Z')
    (hX : ∀ x, (x ∈ X ∨ x ∈ Z) ↔ (x ∈ X' ∨ x ∈ Z')) : Hc H X Z = Hc H X' Z' := by
  unfold Hc
  rw [vunion_congr hX, vnorm_congr hZ]

theorem eval_cmiC (X Y Z : VSet) :
    Comb.eval cast H (cmiC X Y Z) = Hc H X Z + Hc H Y Z - Hc H (vunion X Y) Z := by
  unfold cmiC; simp; ring

/-- `Comb.canon` preserves the value, for `H` with `H ∅ = 0` depending only on the
normalised set. -/
theorem canon_eval (h0 : H [] = 0) (hn : ∀ s, H s = H (vnorm s)) (c : Comb) :
    Comb.eval cast H (Comb.canon c) = Comb.eval cast H c := by
  unfold Comb.canon
  simp only [eval_eq_sum, List.map_map]
  rw [((isort_perm _ _).map _).sum_eq]
  have hcomp : ((fun r : Rat × VSet => cast r.1 * H r.2) ∘ fun r : VSet × Rat => (r.2, r.1))
      = fun r : VSet × Rat => cast r.2 * H r.1 := rfl
  rw [hcomp, sum_map_filter_of_zero]
  · rw [sum_pushforward (fun (s : VSet) (q : Rat) => cast q * H s)
      (by intro k v v'; simp [add_mul]) (fun s => s)]
    simp only [List.map_map]
    congr 1
    apply List.map_congr_left
    intro r _
    simp [← hn]
  · intro r _ hr
    simp only [Bool.and_eq_false_iff, decide_eq_false_iff_not, not_not, Bool.not_eq_false',
      List.isEmpty_iff] at hr
    rcases hr with hr | hr
    · simp [hr]
    · simp [hr, h0]

end Eval

/-! ### Set identities used below -/

theorem vunions_nil : vunions [] = [] := rfl

theorem vunions_cons (g : VSet) (gs : List VSet) :
    vunions (g :: gs) = vunion g (vunions gs) := by
  unfold vunion vunions
  refine vnorm_congr ?_
  intro x
  simp only [List.flatten_cons, List.mem_append, mem_vnorm]

theorem vunions_singleton (g : VSet) : vunions [g] = vnorm g := by
  unfold vunions; simp

theorem vunions_pair (X Y : VSet) : vunions [X, Y] = vunion X Y := by
  unfold vunions vunion; simp

/-! ### Defining formulas of the multivariate measures -/

section Defs
variable {R : Type} [CommRing R] (cast : ℚ →+* R) (H : VSet → R)

theorem Hc_nil (Z : VSet) : Hc H [] Z = 0 := by
  unfold Hc vunion; simp

theorem Hc_vnorm_left (X Z : VSet) : Hc H (vnorm X) Z = Hc H X Z :=
  Hc_congr H (fun _ => Iff.rfl) (by intro x; rw [mem_vnorm])

theorem eval_tcC (groups : List VSet) (Z : VSet) :
    Comb.eval cast H (tcC groups Z)
      = (groups.map (fun g => Hc H g Z)).sum - Hc H (vunions groups) Z := by
  unfold tcC
  simp only [eval_append, eval_sum, eval_scale, eval_condH, List.map_map, map_neg, map_one]
  have : (Comb.eval cast H ∘ fun g => condH g Z) = fun g => Hc H g Z := by
    funext g; simp
  rw [this]; ring

theorem eval_residualC (groups : List VSet) (Z : VSet) :
    Comb.eval cast H (residualC groups Z)
      = (groups.map (fun g =>
          Hc H g (vunion (vdiff (vunions groups) (vnorm g)) Z))).sum := by
  unfold residualC
  simp only [eval_sum, List.map_map]
  congr 1
  apply List.map_congr_left
  intro g _; simp

theorem eval_dtcC (groups : List VSet) (Z : VSet) :
    Comb.eval cast H (dtcC groups Z)
      = Hc H (vunions groups) Z - Comb.eval cast H (residualC groups Z) := by
  unfold dtcC; simp; ring

theorem eval_oinfoC (groups : List VSet) (Z : VSet) :
    Comb.eval cast H (oinfoC groups Z)
      = Comb.eval cast H (tcC groups Z) - Comb.eval cast H (dtcC groups Z) := by
  unfold oinfoC; simp; ring

theorem eval_interactionC (groups : List VSet) (Z : VSet) :
    Comb.eval cast H (interactionC groups Z)
      = (-1) ^ groups.length * Comb.eval cast H (coinfoC groups Z) := by
  unfold interactionC
  rw [eval_scale]
  congr 1
  rcases Nat.even_or_odd groups.length with h | h
  · rw [if_pos (Nat.even_iff.mp h), h.neg_one_pow]; simp
  · rw [if_neg (by rw [Nat.odd_iff.mp h]; decide), h.neg_one_pow]; simp

theorem eval_coinfoC (groups : List VSet) (Z : VSet) :
    Comb.eval cast H (coinfoC groups Z)
      = ((sublists groups).map (fun Xs =>
          (if Xs.length % 2 = 1 then (1 : R) else -1) * Hc H (vunions Xs) Z)).sum := by
  unfold coinfoC
  simp only [eval_sum, List.map_map]
  congr 1
  apply List.map_congr_left
  intro Xs _
  simp only [Function.comp_apply, eval_scale, eval_condH]
  split <;> simp

theorem eval_caeklCand (groups : List VSet) (Z : VSet) (P : List (List VSet)) :
    Comb.eval cast H (caeklCand groups Z P)
      = cast (1 / ((P.length : Rat) - 1))
        * ((P.map (fun B => Hc H (vunions B) Z)).sum - Hc H (vunions groups) Z) := by
  unfold caeklCand
  simp only [eval_append, eval_sum, eval_scale, eval_condH, List.map_map, map_neg, map_one]
  have : (Comb.eval cast H ∘ fun B => condH (vunions B) Z) = fun B => Hc H (vunions B) Z := by
    funext g; simp
  rw [this]; ring

theorem eval_cohesionC (k : Nat) (groups : List VSet) (Z : VSet) :
    Comb.eval cast H (cohesionC k groups Z)
      = ((combos k groups).map (fun S => Hc H (vunions S) Z)).sum
        - (choose (groups.length - 1) (k - 1) : R) * Hc H (vunions groups) Z := by
  unfold cohesionC
  simp only [eval_append, eval_sum, eval_scale, eval_condH, List.map_map, map_neg, map_natCast]
  have : (Comb.eval cast H ∘ fun B => condH (vunions B) Z) = fun B => Hc H (vunions B) Z := by
    funext g; simp
  rw [this]; ring

theorem eval_tseC (groups : List VSet) (Z : VSet) :
    Comb.eval cast H (tseC groups Z)
      = ((List.range groups.length).tail.map (fun k =>
          cast (1 / (choose groups.length k : Rat))
            * ((combos k groups).map (fun S => Hc H (vunions S) Z)).sum
          + cast (-(k : Rat) / (groups.length : Rat)) * Hc H (vunions groups) Z)).sum := by
  unfold tseC
  simp only [eval_sum, List.map_map]
  congr 1
  apply List.map_congr_left
  intro k _
  simp only [Function.comp_apply, eval_append, eval_scale, eval_sum, eval_condH, List.map_map]
  have : (Comb.eval cast H ∘ fun B => condH (vunions B) Z) = fun B => Hc H (vunions B) Z := by
    funext g; simp
  rw [this]

theorem combos_one {β : Type} (l : List β) : combos 1 l = l.map (fun x => [x]) := by
  induction l with
  | nil => rfl
  | cons x t ih => simp [combos, ih]

end Defs

/-! ### Consequences of submodularity (`I(X:Y|Z) ≥ 0`) for an arbitrary set function -/

section Order
variable {R : Type} [CommRing R] [LinearOrder R] [IsStrictOrderedRing R] (H : VSet → R)

/-- `I(X:Y|Z) ≥ 0` for all `X Y Z` (conditional submodularity of `H`). -/
def Submod : Prop := ∀ X Y Z : VSet, 0 ≤ Hc H X Z + Hc H Y Z - Hc H (vunion X Y) Z

variable {H}

theorem Hc_nonneg (h : Submod H) (X Z : VSet) : 0 ≤ Hc H X Z := by
  have h1 := h X X Z
  have : Hc H (vunion X X) Z = Hc H X Z :=
    Hc_congr H (fun _ => Iff.rfl) (by intro x; rw [mem_vunion]; tauto)
  rw [this] at h1; linarith

/-- Chain rule `H(X ∪ Y | Z) = H(X | Z) + H(Y | X ∪ Z)` (pure algebra). -/
theorem Hc_chain (H : VSet → R) (X Y Z : VSet) :
    Hc H (vunion X Y) Z = Hc H X Z + Hc H Y (vunion X Z) := by
  unfold Hc
  have e1 : vunion (vunion X Y) Z = vunion Y (vunion X Z) :=
    vunion_congr (by intro x; simp only [mem_vunion]; tauto)
  have e2 : vnorm (vunion X Z) = vunion X Z := vnorm_idem _
  rw [e1, e2]; ring

/-- Conditioning on more variables cannot increase the conditional entropy. -/
theorem Hc_anti (h : Submod H) (X Z Z' : VSet) (hsub : ∀ x ∈ Z, x ∈ Z') :
    Hc H X Z' ≤ Hc H X Z := by
  have h1 := h X Z' Z
  have e1 : Hc H (vunion X Z') Z = Hc H Z' Z + Hc H X (vunion Z' Z) := by
    rw [← Hc_chain]
    exact Hc_congr H (fun _ => Iff.rfl) (by intro x; simp only [mem_vunion]; tauto)
  have e2 : Hc H X (vunion Z' Z) = Hc H X Z' := by
    refine Hc_congr H ?_ ?_
    · intro x; rw [mem_vunion]; exact ⟨fun hx => hx.elim id (hsub x), Or.inl⟩
    · intro x; simp only [mem_vunion]
      have := hsub x
      tauto
  rw [e1, e2] at h1; linarith

/-- Total correlation is a sum of conditional mutual informations, hence non-negative. -/
theorem tc_sum_nonneg (h : Submod H) (groups : List VSet) (Z : VSet) :
    0 ≤ (groups.map (fun g => Hc H g Z)).sum - Hc H (vunions groups) Z := by
  induction groups with
  | nil => simp [vunions_nil, Hc_nil]
  | cons g gs ih =>
    rw [vunions_cons, List.map_cons, List.sum_cons]
    have := h g (vunions gs) Z
    linarith

/-- Disjointness of two variable sets. -/
def VDisj (a b : VSet) : Prop := ∀ x, x ∈ a → x ∉ b

/-- Core of `dtc ≥ 0`: for pairwise disjoint groups contained in `U`, and a conditioning set `W`
contained in every `(U ∖ g) ∪ Z`, the residual terms are bounded by `H(⋃gs | W)`. -/
theorem residual_le (h : Submod H) (U Z : VSet) (gs : List VSet) (W : VSet)
    (hdis : gs.Pairwise VDisj) (hU : ∀ g ∈ gs, ∀ x ∈ g, x ∈ U)
    (hW : ∀ g ∈ gs, ∀ x ∈ W, x ∈ Z ∨ (x ∈ U ∧ x ∉ g)) :
    (gs.map (fun g => Hc H g (vunion (vdiff U (vnorm g)) Z))).sum ≤ Hc H (vunions gs) W := by
  induction gs generalizing W with
  | nil => simp [vunions_nil, Hc_nil]
  | cons g gs ih =>
    rw [List.map_cons, List.sum_cons, vunions_cons, Hc_chain]
    have hd := List.pairwise_cons.mp hdis
    have h1 : Hc H g (vunion (vdiff U (vnorm g)) Z) ≤ Hc H g W := by
      apply Hc_anti h
      intro x hx
      rw [mem_vunion, mem_vdiff, mem_vnorm]
      rcases hW g List.mem_cons_self x hx with hz | hz
      · exact Or.inr hz
      · exact Or.inl hz
    have h2 := ih (vunion g W) hd.2 (fun g' hg' => hU g' (List.mem_cons_of_mem _ hg'))
      (by
        intro g' hg' x hx
        rcases (mem_vunion _ _ _).mp hx with hx | hx
        · exact Or.inr ⟨hU g List.mem_cons_self x hx, hd.1 g' hg' x hx⟩
        · exact hW g' (List.mem_cons_of_mem _ hg') x hx)
    linarith

theorem dtc_sum_nonneg (h : Submod H) (groups : List VSet) (Z : VSet)
    (hdis : groups.Pairwise VDisj) :
    0 ≤ Hc H (vunions groups) Z
        - (groups.map (fun g =>
            Hc H g (vunion (vdiff (vunions groups) (vnorm g)) Z))).sum := by
  have := residual_le h (vunions groups) Z groups Z hdis
    (fun g hg x hx => (mem_vunions _ _).mpr ⟨g, hg, hx⟩)
    (fun _ _ x hx => Or.inl hx)
  linarith

end Order

/-! ### Set partitions cover the groups -/

theorem exists_mem_modify {β : Type} (x : β) (g : β) (p : List (List β)) (i : Nat) :
    (∃ B ∈ p.modify i (x :: ·), g ∈ B) ↔ (i < p.length ∧ g = x) ∨ ∃ B ∈ p, g ∈ B := by
  induction p generalizing i with
  | nil => simp
  | cons a t ih =>
    cases i with
    | zero =>
      simp only [List.modify_zero_cons, List.mem_cons, exists_eq_or_imp, List.length_cons,
        Nat.zero_lt_succ, true_and]
      tauto
    | succ i =>
      simp only [List.modify_succ_cons, List.mem_cons, exists_eq_or_imp, ih, List.length_cons,
        Nat.add_lt_add_iff_right]
      tauto

theorem setPartitions_cover {β : Type} (l : List β) (P : List (List β))
    (hP : P ∈ setPartitions l) (g : β) : (∃ B ∈ P, g ∈ B) ↔ g ∈ l := by
  induction l generalizing P with
  | nil =>
    simp only [setPartitions, List.mem_singleton] at hP
    subst hP; simp
  | cons x t ih =>
    simp only [setPartitions, List.mem_flatMap, List.mem_cons, List.mem_map, List.mem_range] at hP
    obtain ⟨p, hp, hP⟩ := hP
    rcases hP with rfl | ⟨i, hi, rfl⟩
    · simp [ih p hp]
    · rw [exists_mem_modify, ih p hp, List.mem_cons]
      simp [hi]

theorem vunions_partition (groups : List VSet) (P : List (List VSet))
    (hP : P ∈ setPartitions groups) : vunions (P.map vunions) = vunions groups := by
  unfold vunions
  refine vnorm_congr ?_
  intro x
  simp only [List.mem_flatten, List.mem_map, ← vunions.eq_1]
  constructor
  · rintro ⟨_, ⟨B, hB, rfl⟩, hx⟩
    obtain ⟨g, hg, hxg⟩ := (mem_vunions _ _).mp hx
    exact ⟨g, (setPartitions_cover groups P hP g).mp ⟨B, hB, hg⟩, hxg⟩
  · rintro ⟨g, hg, hxg⟩
    obtain ⟨B, hB, hgB⟩ := (setPartitions_cover groups P hP g).mpr hg
    exact ⟨vunions B, ⟨B, hB, rfl⟩, (mem_vunions _ _).mpr ⟨g, hgB, hxg⟩⟩

/-- Every CAEKL candidate is `1/(|P|−1)` times the total correlation of the blocks. -/
theorem caeklCand_eq_tc {R : Type} [CommRing R] (cast : ℚ →+* R) (H : VSet → R)
    (groups : List VSet) (Z : VSet) (P : List (List VSet)) (hP : P ∈ setPartitions groups) :
    Comb.eval cast H (caeklCand groups Z P)
      = cast (1 / ((P.length : Rat) - 1)) * Comb.eval cast H (tcC (P.map vunions) Z) := by
  rw [eval_caeklCand, eval_tcC, vunions_partition groups P hP, List.map_map]
  congr 2

end Dit.Lemmas.InfoAlg
