/-
Helper lemmas for set partitions and the functional common information (`Core/SetPart.lean`,
`setPartitions` in `Core/Info.lean`). Property theorems are in Props/C16Fci.lean.
-/
import DitModel.Core.SetPart
import DitModel.Lemmas.Table
import DitModel.Lemmas.InfoAlg
import Mathlib.Algebra.Field.Rat
import Mathlib.Algebra.Order.Ring.Rat
import Mathlib.Data.List.Perm.Basic
import Mathlib.Data.List.Nodup
import Mathlib.Data.Finset.Basic
import Mathlib.Algebra.BigOperators.Group.Finset.Basic

set_option linter.unusedSectionVars false

namespace Dit.Lemmas.SetPart
open Dit

/-! ### Set partitions as lists of blocks -/

section Part
variable {β : Type} [DecidableEq β]

/-- Unbundled copy of `Props.C16Fci.IsSetPartition` (same four fields, same order). -/
structure IsPart (P : List (List β)) (l : List β) : Prop where
  nonempty : ∀ B ∈ P, B ≠ []
  nodup : ∀ B ∈ P, B.Nodup
  disjoint : P.Pairwise (fun B B' => ∀ x, x ∈ B → x ∉ B')
  cover : ∀ x, (∃ B ∈ P, x ∈ B) ↔ x ∈ l

/-- Same members. -/
def SameMem (B B' : List β) : Prop := ∀ x, x ∈ B ↔ x ∈ B'

/-- Copy of `Props.C16Fci.SameBlocks` (definitionally the same proposition). -/
def Same (P Q : List (List β)) : Prop :=
  (∀ B ∈ P, ∃ B' ∈ Q, ∀ x, x ∈ B ↔ x ∈ B') ∧ (∀ B' ∈ Q, ∃ B ∈ P, ∀ x, x ∈ B ↔ x ∈ B')

theorem Same.refl (P : List (List β)) : Same P P :=
  ⟨fun B hB => ⟨B, hB, fun _ => Iff.rfl⟩, fun B hB => ⟨B, hB, fun _ => Iff.rfl⟩⟩

theorem Same.symm {P Q : List (List β)} (h : Same P Q) : Same Q P := by
  refine ⟨fun B hB => ?_, fun B hB => ?_⟩
  · obtain ⟨B', hB', h'⟩ := h.2 B hB
    exact ⟨B', hB', fun x => (h' x).symm⟩
  · obtain ⟨B', hB', h'⟩ := h.1 B hB
    exact ⟨B', hB', fun x => (h' x).symm⟩

theorem Same.trans {P Q R : List (List β)} (h : Same P Q) (h' : Same Q R) : Same P R := by
  refine ⟨fun B hB => ?_, fun B hB => ?_⟩
  · obtain ⟨B', hB', e⟩ := h.1 B hB
    obtain ⟨B'', hB'', e'⟩ := h'.1 B' hB'
    exact ⟨B'', hB'', fun x => (e x).trans (e' x)⟩
  · obtain ⟨B', hB', e⟩ := h'.2 B hB
    obtain ⟨B'', hB'', e'⟩ := h.2 B' hB'
    exact ⟨B'', hB'', fun x => (e' x).trans (e x)⟩

theorem Same.of_mem_iff {P Q : List (List β)} (h : ∀ B, B ∈ P ↔ B ∈ Q) : Same P Q :=
  ⟨fun B hB => ⟨B, (h B).mp hB, fun _ => Iff.rfl⟩, fun B hB => ⟨B, (h B).mpr hB, fun _ => Iff.rfl⟩⟩

theorem Same.of_perm {P Q : List (List β)} (h : P.Perm Q) : Same P Q :=
  Same.of_mem_iff (fun _ => h.mem_iff)

theorem Same.cons {P Q : List (List β)} {B B' : List β} (hB : ∀ x, x ∈ B ↔ x ∈ B')
    (h : Same P Q) : Same (B :: P) (B' :: Q) := by
  refine ⟨fun C hC => ?_, fun C hC => ?_⟩
  · rcases List.mem_cons.mp hC with rfl | hC
    · exact ⟨B', List.mem_cons_self, hB⟩
    · obtain ⟨C', hC', e⟩ := h.1 C hC
      exact ⟨C', List.mem_cons_of_mem _ hC', e⟩
  · rcases List.mem_cons.mp hC with rfl | hC
    · exact ⟨B, List.mem_cons_self, hB⟩
    · obtain ⟨C', hC', e⟩ := h.2 C hC
      exact ⟨C', List.mem_cons_of_mem _ hC', e⟩

theorem disj_symm {B B' : List β} (h : ∀ x, x ∈ B → x ∉ B') : ∀ x, x ∈ B' → x ∉ B :=
  fun x hx hx' => h x hx' hx

theorem IsPart.eq_of_mem {P : List (List β)} {l : List β} (h : IsPart P l) {B B' : List β}
    (hB : B ∈ P) (hB' : B' ∈ P) {x : β} (hx : x ∈ B) (hx' : x ∈ B') : B = B' := by
  by_contra hne
  have : Std.Symm (fun B B' : List β => ∀ x, x ∈ B → x ∉ B') := ⟨fun _ _ h => disj_symm h⟩
  exact h.disjoint.forall hB hB' hne x hx hx'

theorem IsPart.perm {P P' : List (List β)} {l : List β} (h : IsPart P l) (hp : P.Perm P') :
    IsPart P' l where
  nonempty := fun B hB => h.nonempty B (hp.mem_iff.mpr hB)
  nodup := fun B hB => h.nodup B (hp.mem_iff.mpr hB)
  disjoint := (hp.pairwise_iff (fun h => disj_symm h)).mp h.disjoint
  cover := fun x => by
    rw [← h.cover x]
    constructor
    · rintro ⟨B, hB, hx⟩; exact ⟨B, hp.mem_iff.mpr hB, hx⟩
    · rintro ⟨B, hB, hx⟩; exact ⟨B, hp.mem_iff.mp hB, hx⟩

theorem IsPart.of_mem_iff {P : List (List β)} {l l' : List β} (h : IsPart P l)
    (hl : ∀ x, x ∈ l ↔ x ∈ l') : IsPart P l' :=
  ⟨h.nonempty, h.nodup, h.disjoint, fun x => (h.cover x).trans (hl x)⟩

theorem IsPart.mem_of_mem {P : List (List β)} {l : List β} (h : IsPart P l) {B : List β}
    (hB : B ∈ P) {x : β} (hx : x ∈ B) : x ∈ l := (h.cover x).mp ⟨B, hB, hx⟩

theorem isPart_nil : IsPart ([] : List (List β)) [] :=
  ⟨by simp, by simp, List.Pairwise.nil, by simp⟩

theorem IsPart.eq_nil {P : List (List β)} (h : IsPart P []) : P = [] := by
  cases P with
  | nil => rfl
  | cons B R =>
    exfalso
    obtain ⟨x, hx⟩ := List.exists_mem_of_ne_nil B (h.nonempty B List.mem_cons_self)
    exact List.not_mem_nil (h.mem_of_mem List.mem_cons_self hx)

/-- Blocks of a partition, with a first block `A` whose complement is `R`. -/
theorem isPart_cons' {A : List β} {b : List (List β)} {R l : List β} (hA : A ≠ [])
    (hnd : A.Nodup) (hd : ∀ x ∈ A, x ∉ R) (hl : ∀ x, x ∈ l ↔ x ∈ A ∨ x ∈ R)
    (hb : IsPart b R) : IsPart (A :: b) l := by
  refine ⟨?_, ?_, ?_, ?_⟩
  · intro B hB
    rcases List.mem_cons.mp hB with rfl | hB
    · exact hA
    · exact hb.nonempty B hB
  · intro B hB
    rcases List.mem_cons.mp hB with rfl | hB
    · exact hnd
    · exact hb.nodup B hB
  · refine List.pairwise_cons.mpr ⟨?_, hb.disjoint⟩
    intro B hB x hx hx'
    exact hd x hx (hb.mem_of_mem hB hx')
  · intro x
    rw [hl x, ← hb.cover x]
    simp only [List.mem_cons, exists_eq_or_imp]

theorem isPart_cons {A : List β} {b : List (List β)} {R l : List β} (hA : A ≠ [])
    (hp : (A ++ R).Perm l) (hl : l.Nodup) (hb : IsPart b R) : IsPart (A :: b) l := by
  have hnd : (A ++ R).Nodup := hp.nodup_iff.mpr hl
  have hAR := List.nodup_append.mp hnd
  exact isPart_cons' hA hAR.1 (fun x hx hx' => hAR.2.2 x hx x hx' rfl)
    (fun x => by rw [← hp.mem_iff, List.mem_append]) hb

/-- Removing the first block. -/
theorem IsPart.tail {A : List β} {b : List (List β)} {l : List β} (h : IsPart (A :: b) l) :
    IsPart b (l.filter (fun y => decide (y ∉ A))) := by
  have hd := List.pairwise_cons.mp h.disjoint
  refine ⟨fun B hB => h.nonempty B (List.mem_cons_of_mem _ hB),
    fun B hB => h.nodup B (List.mem_cons_of_mem _ hB), hd.2, ?_⟩
  intro x
  simp only [List.mem_filter, decide_eq_true_eq]
  constructor
  · rintro ⟨B, hB, hx⟩
    exact ⟨h.mem_of_mem (List.mem_cons_of_mem _ hB) hx, fun hxA => hd.1 B hB x hxA hx⟩
  · rintro ⟨hx, hxA⟩
    obtain ⟨B, hB, hxB⟩ := (h.cover x).mpr hx
    rcases List.mem_cons.mp hB with rfl | hB
    · exact absurd hxB hxA
    · exact ⟨B, hB, hxB⟩

/-- From `Same (C :: p) (C' :: q)` with `C ≃ C'` drop the heads. -/
theorem Same.tail {C C' : List β} {p q : List (List β)} {l l' : List β}
    (hp : IsPart (C :: p) l) (hq : IsPart (C' :: q) l') (hC : ∀ x, x ∈ C ↔ x ∈ C')
    (h : Same (C :: p) (C' :: q)) : Same p q := by
  have hdp := List.pairwise_cons.mp hp.disjoint
  have hdq := List.pairwise_cons.mp hq.disjoint
  refine ⟨fun D hD => ?_, fun D hD => ?_⟩
  · obtain ⟨D', hD', e⟩ := h.1 D (List.mem_cons_of_mem _ hD)
    rcases List.mem_cons.mp hD' with rfl | hD'
    · exfalso
      obtain ⟨a, ha⟩ := List.exists_mem_of_ne_nil D (hp.nonempty D (List.mem_cons_of_mem _ hD))
      exact hdp.1 D hD a ((hC a).mpr ((e a).mp ha)) ha
    · exact ⟨D', hD', e⟩
  · obtain ⟨D', hD', e⟩ := h.2 D (List.mem_cons_of_mem _ hD)
    rcases List.mem_cons.mp hD' with rfl | hD'
    · exfalso
      obtain ⟨a, ha⟩ := List.exists_mem_of_ne_nil D (hq.nonempty D (List.mem_cons_of_mem _ hD))
      exact hdq.1 D hD a ((hC a).mp ((e a).mpr ha)) ha
    · exact ⟨D', hD', e⟩

/-- In two partitions with the same blocks, the blocks holding a given element agree. -/
theorem Same.block_of {P Q : List (List β)} {l : List β} (hQ : IsPart Q l) (h : Same P Q)
    {B B' : List β} (hB : B ∈ P) (hB' : B' ∈ Q) {x : β} (hx : x ∈ B) (hx' : x ∈ B') :
    ∀ y, y ∈ B ↔ y ∈ B' := by
  obtain ⟨B'', hB'', e⟩ := h.1 B hB
  have : B'' = B' := hQ.eq_of_mem hB'' hB' ((e x).mp hx) hx'
  subst this
  exact e

/-! ### Blocks as finsets: `Same` is equality of sets of sets -/

def blocksF (P : List (List β)) : List (Finset β) := P.map List.toFinset

theorem same_iff_blocksF {P Q : List (List β)} :
    Same P Q ↔ ∀ S, S ∈ blocksF P ↔ S ∈ blocksF Q := by
  have key : ∀ {P Q : List (List β)}, (∀ B ∈ P, ∃ B' ∈ Q, ∀ x, x ∈ B ↔ x ∈ B') ↔
      ∀ S, S ∈ blocksF P → S ∈ blocksF Q := by
    intro P Q
    simp only [blocksF, List.mem_map]
    constructor
    · rintro h S ⟨B, hB, rfl⟩
      obtain ⟨B', hB', e⟩ := h B hB
      exact ⟨B', hB', by ext x; simp [e x]⟩
    · intro h B hB
      obtain ⟨B', hB', e⟩ := h _ ⟨B, hB, rfl⟩
      refine ⟨B', hB', fun x => ?_⟩
      have := congrArg (fun S => x ∈ S) e
      simp only [List.mem_toFinset, eq_iff_iff] at this
      exact this.symm
  constructor
  · intro h S
    exact ⟨key.mp h.1 S, key.mp (fun B hB => by
      obtain ⟨B', hB', e⟩ := h.2 B hB
      exact ⟨B', hB', fun x => (e x).symm⟩) S⟩
  · intro h
    refine ⟨key.mpr (fun S => (h S).mp), fun B hB => ?_⟩
    obtain ⟨B', hB', e⟩ := key.mpr (fun S => (h S).mpr) B hB
    exact ⟨B', hB', fun x => (e x).symm⟩

theorem IsPart.nodup_blocksF {P : List (List β)} {l : List β} (h : IsPart P l) :
    (blocksF P).Nodup := by
  unfold blocksF List.Nodup
  rw [List.pairwise_map]
  refine h.disjoint.imp_of_mem ?_
  intro B B' hB _ hd he
  obtain ⟨a, ha⟩ := List.exists_mem_of_ne_nil B (h.nonempty B hB)
  refine hd a ha ?_
  have : a ∈ B.toFinset := List.mem_toFinset.mpr ha
  rw [he] at this
  exact List.mem_toFinset.mp this

theorem Same.perm_blocksF {P Q : List (List β)} {l l' : List β} (hP : IsPart P l)
    (hQ : IsPart Q l') (h : Same P Q) : (blocksF P).Perm (blocksF Q) :=
  (List.perm_ext_iff_of_nodup hP.nodup_blocksF hQ.nodup_blocksF).mpr (same_iff_blocksF.mp h)

theorem Same.length_eq {P Q : List (List β)} {l l' : List β} (hP : IsPart P l)
    (hQ : IsPart Q l') (h : Same P Q) : P.length = Q.length := by
  have := (h.perm_blocksF hP hQ).length_eq
  simpa [blocksF] using this

end Part

/-! ### `setPartitions` -/

section SetPartitions
variable {β : Type} [DecidableEq β]

theorem mem_setPartitions_cons {x : β} {t : List β} {P : List (List β)} :
    P ∈ setPartitions (x :: t) ↔
      ∃ p ∈ setPartitions t, P = [x] :: p ∨ ∃ i, i < p.length ∧ P = p.modify i (x :: ·) := by
  simp only [setPartitions, List.mem_flatMap, List.mem_cons, List.mem_map, List.mem_range]
  constructor
  · rintro ⟨p, hp, h | ⟨i, hi, rfl⟩⟩
    · exact ⟨p, hp, Or.inl h⟩
    · exact ⟨p, hp, Or.inr ⟨i, hi, rfl⟩⟩
  · rintro ⟨p, hp, h | ⟨i, hi, rfl⟩⟩
    · exact ⟨p, hp, Or.inl h⟩
    · exact ⟨p, hp, Or.inr ⟨i, hi, rfl⟩⟩

theorem perm_getElem_cons_eraseIdx {γ : Type} (p : List γ) (i : Nat) (hi : i < p.length) :
    p.Perm (p[i] :: p.eraseIdx i) := by
  induction p generalizing i with
  | nil => simp at hi
  | cons a q ih =>
    cases i with
    | zero => simp
    | succ i =>
      simp only [List.getElem_cons_succ, List.eraseIdx_cons_succ]
      exact ((ih i (by simpa using hi)).cons a).trans (List.Perm.swap _ _ _)

theorem modify_perm {γ : Type} (f : γ → γ) (p : List γ) (i : Nat) (hi : i < p.length) :
    (p.modify i f).Perm (f p[i] :: p.eraseIdx i) := by
  induction p generalizing i with
  | nil => simp at hi
  | cons a q ih =>
    cases i with
    | zero => simp
    | succ i =>
      simp only [List.modify_succ_cons, List.getElem_cons_succ, List.eraseIdx_cons_succ]
      exact ((ih i (by simpa using hi)).cons a).trans (List.Perm.swap _ _ _)

/-- A new singleton block. -/
theorem isPart_new {x : β} {t : List β} {p : List (List β)} (hx : x ∉ t) (hp : IsPart p t) :
    IsPart ([x] :: p) (x :: t) :=
  isPart_cons' (by simp) (by simp) (by simpa using hx) (by simp) hp

/-- `x` joins the first block. -/
theorem isPart_insert {x : β} {t : List β} {C : List β} {p : List (List β)} (hx : x ∉ t)
    (hp : IsPart (C :: p) t) : IsPart ((x :: C) :: p) (x :: t) := by
  have hC : ∀ y ∈ C, y ∈ t := fun y hy => hp.mem_of_mem List.mem_cons_self hy
  have hd := List.pairwise_cons.mp hp.disjoint
  have ht := hp.tail
  refine isPart_cons' (R := t.filter (fun y => decide (y ∉ C))) (by simp)
    (List.nodup_cons.mpr ⟨fun h => hx (hC x h), hp.nodup C List.mem_cons_self⟩) ?_ ?_ ht
  · intro y hy
    simp only [List.mem_filter, decide_eq_true_eq, not_and, not_not]
    rcases List.mem_cons.mp hy with rfl | hy
    · exact fun h => absurd h hx
    · exact fun _ => hy
  · intro y
    simp only [List.mem_cons, List.mem_filter, decide_eq_true_eq]
    constructor
    · rintro (rfl | hy)
      · exact Or.inl (Or.inl rfl)
      · by_cases hyC : y ∈ C
        · exact Or.inl (Or.inr hyC)
        · exact Or.inr ⟨hy, hyC⟩
    · rintro ((rfl | hy) | ⟨hy, -⟩)
      · exact Or.inl rfl
      · exact Or.inr (hC y hy)
      · exact Or.inr hy

theorem isPart_modify {x : β} {t : List β} {p : List (List β)} (hx : x ∉ t) (hp : IsPart p t)
    {i : Nat} (hi : i < p.length) : IsPart (p.modify i (x :: ·)) (x :: t) :=
  (isPart_insert hx (hp.perm (perm_getElem_cons_eraseIdx p i hi))).perm
    (modify_perm (x :: ·) p i hi).symm

theorem setPartitions_isPart {l : List β} (hl : l.Nodup) :
    ∀ P ∈ setPartitions l, IsPart P l := by
  induction l with
  | nil =>
    intro P hP
    simp only [setPartitions, List.mem_singleton] at hP
    subst hP
    exact isPart_nil
  | cons x t ih =>
    intro P hP
    have hnd := List.nodup_cons.mp hl
    obtain ⟨p, hp, rfl | ⟨i, hi, rfl⟩⟩ := mem_setPartitions_cons.mp hP
    · exact isPart_new hnd.1 (ih hnd.2 p hp)
    · exact isPart_modify hnd.1 (ih hnd.2 p hp) hi

/-- Completeness. -/
theorem setPartitions_complete' {l : List β} (hl : l.Nodup) (Q : List (List β))
    (hQ : IsPart Q l) : ∃ P ∈ setPartitions l, Same P Q := by
  induction l generalizing Q with
  | nil =>
    rw [hQ.eq_nil]
    exact ⟨[], by simp [setPartitions], Same.refl _⟩
  | cons x t ih =>
    have hnd := List.nodup_cons.mp hl
    obtain ⟨B0, hB0, hxB0⟩ := (hQ.cover x).mpr List.mem_cons_self
    have hperm := List.perm_cons_erase hB0
    have hQ' := hQ.perm hperm
    set Qr := Q.erase B0 with hQr
    have hd := List.pairwise_cons.mp hQ'.disjoint
    have hB0nd := hQ.nodup B0 hB0
    have hmemB0 : ∀ y, y ∈ B0.erase x ↔ y ≠ x ∧ y ∈ B0 := fun y => hB0nd.mem_erase_iff
    have htail := hQ'.tail
    by_cases hB0' : B0.erase x = []
    · -- `B0 = [x]`
      have hB0x : ∀ y, y ∈ B0 ↔ y = x := by
        intro y
        constructor
        · intro hy
          by_contra hne
          have : y ∈ B0.erase x := (hmemB0 y).mpr ⟨hne, hy⟩
          rw [hB0'] at this
          exact List.not_mem_nil this
        · rintro rfl; exact hxB0
      have hQr' : IsPart Qr t := by
        refine htail.of_mem_iff (fun y => ?_)
        simp only [List.mem_filter, List.mem_cons, decide_eq_true_eq, hB0x]
        constructor
        · rintro ⟨rfl | hy, hne⟩
          · exact absurd rfl hne
          · exact hy
        · intro hy
          exact ⟨Or.inr hy, fun h => hnd.1 (h ▸ hy)⟩
      obtain ⟨p, hp, hs⟩ := ih hnd.2 Qr hQr'
      refine ⟨[x] :: p, mem_setPartitions_cons.mpr ⟨p, hp, Or.inl rfl⟩, ?_⟩
      refine (Same.cons (B := [x]) (B' := B0) ?_ hs).trans (Same.of_perm hperm.symm)
      intro y
      rw [hB0x y, List.mem_singleton]
    · -- `x` joins a block of a partition of `t`
      have hQt : IsPart (B0.erase x :: Qr) t := by
        refine isPart_cons' (R := (x :: t).filter (fun y => decide (y ∉ B0))) hB0'
          (hB0nd.erase x) ?_ ?_ htail
        · intro y hy
          simp only [List.mem_filter, decide_eq_true_eq, not_and, not_not]
          exact fun _ => ((hmemB0 y).mp hy).2
        · intro y
          simp only [List.mem_filter, List.mem_cons, decide_eq_true_eq, hmemB0]
          constructor
          · intro hy
            have hne : y ≠ x := fun h => hnd.1 (h ▸ hy)
            by_cases hyB : y ∈ B0
            · exact Or.inl ⟨hne, hyB⟩
            · exact Or.inr ⟨Or.inr hy, hyB⟩
          · rintro (⟨hne, hyB⟩ | ⟨rfl | hy, hyB⟩)
            · rcases List.mem_cons.mp (hQ.mem_of_mem hB0 hyB) with h | h
              · exact absurd h hne
              · exact h
            · exact absurd hxB0 hyB
            · exact hy
      obtain ⟨p, hp, hs⟩ := ih hnd.2 _ hQt
      have hpP := setPartitions_isPart hnd.2 p hp
      obtain ⟨C, hC, hCe⟩ := hs.2 (B0.erase x) List.mem_cons_self
      obtain ⟨i, hi, rfl⟩ := List.getElem_of_mem hC
      have hpp := perm_getElem_cons_eraseIdx p i hi
      have hs' : Same (p[i] :: p.eraseIdx i) (B0.erase x :: Qr) := (Same.of_perm hpp.symm).trans hs
      have hst : Same (p.eraseIdx i) Qr := Same.tail (hpP.perm hpp) hQt hCe hs'
      refine ⟨p.modify i (x :: ·), mem_setPartitions_cons.mpr ⟨p, hp, Or.inr ⟨i, hi, rfl⟩⟩, ?_⟩
      refine (Same.of_perm (modify_perm (x :: ·) p i hi)).trans
        ((Same.cons ?_ hst).trans (Same.of_perm hperm.symm))
      intro y
      rw [List.mem_cons, hCe y, hmemB0 y]
      constructor
      · rintro (rfl | ⟨-, h⟩)
        · exact hxB0
        · exact h
      · intro h
        by_cases hyx : y = x
        · exact Or.inl hyx
        · exact Or.inr ⟨hyx, h⟩

/-! Removing an item from every block (empty blocks dropped). -/

def rem (x : β) (P : List (List β)) : List (List β) :=
  (P.map (fun B => B.filter (fun y => decide (y ≠ x)))).filter (fun B => decide (B ≠ []))

theorem mem_rem {x : β} {P : List (List β)} {D : List β} :
    D ∈ rem x P ↔ (∃ B ∈ P, B.filter (fun y => decide (y ≠ x)) = D) ∧ D ≠ [] := by
  simp [rem]

theorem rem_sub {x : β} {P P' : List (List β)}
    (h : ∀ B ∈ P, ∃ B' ∈ P', ∀ y, y ∈ B ↔ y ∈ B') :
    ∀ D ∈ rem x P, ∃ D' ∈ rem x P', ∀ y, y ∈ D ↔ y ∈ D' := by
  intro D hD
  obtain ⟨⟨B, hB, rfl⟩, hne⟩ := mem_rem.mp hD
  obtain ⟨B', hB', e⟩ := h B hB
  have hm : ∀ y, y ∈ B.filter (fun y => decide (y ≠ x)) ↔ y ∈ B'.filter (fun y => decide (y ≠ x)) := by
    intro y
    simp only [List.mem_filter, e y]
  refine ⟨_, mem_rem.mpr ⟨⟨B', hB', rfl⟩, ?_⟩, hm⟩
  obtain ⟨a, ha⟩ := List.exists_mem_of_ne_nil _ hne
  exact List.ne_nil_of_mem ((hm a).mp ha)

theorem Same.rem (x : β) {P P' : List (List β)} (h : Same P P') : Same (rem x P) (rem x P') := by
  refine ⟨rem_sub h.1, ?_⟩
  intro D hD
  obtain ⟨D', hD', e⟩ := rem_sub (x := x) (P := P') (P' := P)
    (fun B hB => by
      obtain ⟨B', hB', e⟩ := h.2 B hB
      exact ⟨B', hB', fun y => (e y).symm⟩) D hD
  exact ⟨D', hD', fun y => (e y).symm⟩

theorem rem_perm (x : β) {P P' : List (List β)} (h : P.Perm P') : (rem x P).Perm (rem x P') :=
  (h.map _).filter _

theorem rem_clean {x : β} {p : List (List β)} (h : ∀ B ∈ p, B ≠ [] ∧ x ∉ B) : rem x p = p := by
  induction p with
  | nil => rfl
  | cons B q ih =>
    have hB := h B List.mem_cons_self
    have hf : B.filter (fun y => decide (y ≠ x)) = B := by
      rw [List.filter_eq_self]
      intro y hy
      have hne : y ≠ x := fun hyx => hB.2 (hyx ▸ hy)
      simpa using hne
    have := ih (fun C hC => h C (List.mem_cons_of_mem _ hC))
    unfold rem at this ⊢
    rw [List.map_cons, hf, List.filter_cons_of_pos (by simpa using hB.1), this]

theorem rem_new {x : β} {p : List (List β)} (h : ∀ B ∈ p, B ≠ [] ∧ x ∉ B) :
    rem x ([x] :: p) = p := by
  have := rem_clean h
  unfold rem at this ⊢
  simpa using this

theorem rem_insert {x : β} {C : List β} {p : List (List β)} (h : ∀ B ∈ C :: p, B ≠ [] ∧ x ∉ B) :
    rem x ((x :: C) :: p) = C :: p := by
  have := rem_clean h
  unfold rem at this ⊢
  simpa using this

theorem IsPart.clean {x : β} {t : List β} {p : List (List β)} (hx : x ∉ t) (hp : IsPart p t) :
    ∀ B ∈ p, B ≠ [] ∧ x ∉ B :=
  fun B hB => ⟨hp.nonempty B hB, fun h => hx (hp.mem_of_mem hB h)⟩

theorem same_rem_modify {x : β} {t : List β} {p : List (List β)} (hx : x ∉ t) (hp : IsPart p t)
    {i : Nat} (hi : i < p.length) : Same (rem x (p.modify i (x :: ·))) p := by
  have hpp := perm_getElem_cons_eraseIdx p i hi
  have h1 := rem_perm x (modify_perm (x :: ·) p i hi)
  rw [rem_insert ((hp.perm hpp).clean hx)] at h1
  exact Same.of_perm (h1.trans hpp.symm)

theorem cons_getElem_mem_modify {x : β} {p : List (List β)} {i : Nat} (hi : i < p.length) :
    x :: p[i] ∈ p.modify i (x :: ·) :=
  (modify_perm (x :: ·) p i hi).mem_iff.mpr List.mem_cons_self

theorem not_same_new_modify {x : β} {t : List β} {p : List (List β)} (hx : x ∉ t)
    (hp : IsPart p t) {i : Nat} (hi : i < p.length) :
    ¬ Same ([x] :: p) (p.modify i (x :: ·)) := by
  intro h
  have e := h.block_of (isPart_modify hx hp hi) (B := [x]) List.mem_cons_self
    (cons_getElem_mem_modify hi) (x := x) List.mem_cons_self List.mem_cons_self
  have hpi : p[i] ∈ p := List.getElem_mem hi
  obtain ⟨a, ha⟩ := List.exists_mem_of_ne_nil _ (hp.nonempty _ hpi)
  have : a = x := by simpa using (e a).mpr (List.mem_cons_of_mem _ ha)
  exact hx (hp.mem_of_mem hpi (this ▸ ha))

theorem not_same_modify_modify {x : β} {t : List β} {p : List (List β)} (hx : x ∉ t)
    (hp : IsPart p t) {i j : Nat} (hij : i < j) (hj : j < p.length) :
    ¬ Same (p.modify i (x :: ·)) (p.modify j (x :: ·)) := by
  intro h
  have hi : i < p.length := hij.trans hj
  have e := h.block_of (isPart_modify hx hp hj) (cons_getElem_mem_modify hi)
    (cons_getElem_mem_modify hj) (x := x) List.mem_cons_self List.mem_cons_self
  have hpi : p[i] ∈ p := List.getElem_mem hi
  obtain ⟨a, ha⟩ := List.exists_mem_of_ne_nil _ (hp.nonempty _ hpi)
  rcases List.mem_cons.mp ((e a).mp (List.mem_cons_of_mem _ ha)) with hax | haj
  · exact hx (hp.mem_of_mem hpi (hax ▸ ha))
  · exact List.pairwise_iff_getElem.mp hp.disjoint i j hi hj hij a ha haj

theorem setPartitions_distinct' {l : List β} (hl : l.Nodup) :
    (setPartitions l).Pairwise (fun P P' => ¬ Same P P') := by
  induction l with
  | nil => simp [setPartitions]
  | cons x t ih =>
    have hnd := List.nodup_cons.mp hl
    have hx := hnd.1
    unfold setPartitions
    rw [List.pairwise_flatMap]
    constructor
    · intro p hp
      have hpP := setPartitions_isPart hnd.2 p hp
      rw [List.pairwise_cons, List.pairwise_map]
      constructor
      · intro P' hP'
        obtain ⟨i, hi, rfl⟩ := List.mem_map.mp hP'
        exact not_same_new_modify hx hpP (List.mem_range.mp hi)
      · refine List.pairwise_lt_range.imp_of_mem ?_
        intro i j _ hj hij
        exact not_same_modify_modify hx hpP hij (List.mem_range.mp hj)
    · refine (ih hnd.2).imp_of_mem ?_
      intro p p' hp hp' hne P hP P' hP' hs
      have hpP := setPartitions_isPart hnd.2 p hp
      have hpP' := setPartitions_isPart hnd.2 p' hp'
      have key : ∀ {q : List (List β)}, IsPart q t → ∀ {R : List (List β)},
          R ∈ ([x] :: q) :: (List.range q.length).map (fun i => q.modify i (x :: ·)) →
          Same (rem x R) q := by
        intro q hq R hR
        rcases List.mem_cons.mp hR with rfl | hR
        · rw [rem_new (hq.clean hx)]; exact Same.refl _
        · obtain ⟨i, hi, rfl⟩ := List.mem_map.mp hR
          exact same_rem_modify hx hq (List.mem_range.mp hi)
      exact hne ((key hpP hP).symm.trans ((hs.rem x).trans (key hpP' hP')))

end SetPartitions

/-! ### `partitions1` (bit masks) -/

section Partitions1
variable {β : Type} [DecidableEq β]

theorem splitByMask_cons (x : β) (t : List β) (i : Nat) :
    splitByMask (x :: t) i =
      if i % 2 = 0 then (x :: (splitByMask t (i / 2)).1, (splitByMask t (i / 2)).2)
      else ((splitByMask t (i / 2)).1, x :: (splitByMask t (i / 2)).2) := rfl

theorem splitByMask_perm (l : List β) (i : Nat) :
    ((splitByMask l i).1 ++ (splitByMask l i).2).Perm l := by
  induction l generalizing i with
  | nil => simp [splitByMask]
  | cons x t ih =>
    rw [splitByMask_cons]
    split
    · exact (ih (i / 2)).cons x
    · exact List.perm_middle.trans ((ih (i / 2)).cons x)

theorem splitByMask_fst_ne_nil (l : List β) (i : Nat) (hl : l ≠ [])
    (hi : 2 * i < 2 ^ l.length) : (splitByMask l i).1 ≠ [] := by
  induction l generalizing i with
  | nil => contradiction
  | cons x t ih =>
    rw [splitByMask_cons]
    split
    · simp
    · have ht : t ≠ [] := by
        rintro rfl
        simp at hi
        omega
      apply ih (i / 2) ht
      rw [List.length_cons, Nat.pow_succ] at hi
      omega

/-- The mask that sends the items satisfying `s` to the first part. -/
def maskOf (s : β → Bool) : List β → Nat
  | [] => 0
  | x :: t => (if s x then 0 else 1) + 2 * maskOf s t

theorem splitByMask_maskOf (s : β → Bool) (l : List β) :
    splitByMask l (maskOf s l) = (l.filter s, l.filter (fun y => !s y)) := by
  induction l with
  | nil => rfl
  | cons x t ih =>
    rw [splitByMask_cons]
    cases hs : s x
    · have h1 : maskOf s (x :: t) % 2 = 1 := by simp [maskOf, hs]
      have h2 : maskOf s (x :: t) / 2 = maskOf s t := by simp [maskOf, hs]; omega
      rw [if_neg (by omega), h2, ih]
      simp [hs]
    · have h1 : maskOf s (x :: t) % 2 = 0 := by simp [maskOf, hs]
      have h2 : maskOf s (x :: t) / 2 = maskOf s t := by simp [maskOf, hs]
      rw [if_pos h1, h2, ih]
      simp [hs]

theorem maskOf_lt (s : β → Bool) (l : List β) (hl : l ≠ []) (h : s (l.getLast hl) = true) :
    2 * maskOf s l < 2 ^ l.length := by
  induction l with
  | nil => contradiction
  | cons x t ih =>
    cases t with
    | nil =>
      simp only [List.getLast_singleton] at h
      simp [maskOf, h]
    | cons y t' =>
      have := ih (by simp) (by simpa using h)
      simp only [maskOf, List.length_cons, Nat.pow_succ] at this ⊢
      split <;> omega

theorem mem_partitions1Fuel_succ {fuel : Nat} {x : β} {t : List β} {P : List (List β)} :
    P ∈ partitions1Fuel (fuel + 1) (x :: t) ↔
      ∃ i, 2 * i < 2 ^ (x :: t).length ∧ ∃ b ∈ partitions1Fuel fuel (splitByMask (x :: t) i).2,
        P = (splitByMask (x :: t) i).1 :: b := by
  simp only [partitions1Fuel, List.mem_flatMap, List.mem_range, List.mem_map]
  have e : ∀ i, i < 2 ^ (x :: t).length / 2 ↔ 2 * i < 2 ^ (x :: t).length := by
    intro i
    rw [List.length_cons, Nat.pow_succ]
    omega
  constructor
  · rintro ⟨i, hi, b, hb, rfl⟩
    exact ⟨i, (e i).mp hi, b, hb, rfl⟩
  · rintro ⟨i, hi, b, hb, rfl⟩
    exact ⟨i, (e i).mpr hi, b, hb, rfl⟩

theorem splitByMask_snd_length_lt (l : List β) (i : Nat) (hl : l ≠ [])
    (hi : 2 * i < 2 ^ l.length) : (splitByMask l i).2.length < l.length := by
  have h1 := (splitByMask_perm l i).length_eq
  have h2 := List.length_pos_iff.mpr (splitByMask_fst_ne_nil l i hl hi)
  rw [List.length_append] at h1
  omega

theorem partitions1Fuel_isPart (fuel : Nat) (l : List β) (hf : l.length ≤ fuel) (hl : l.Nodup) :
    ∀ P ∈ partitions1Fuel fuel l, IsPart P l := by
  induction fuel generalizing l with
  | zero =>
    have : l = [] := List.eq_nil_of_length_eq_zero (by omega)
    subst this
    intro P hP
    simp only [partitions1Fuel, List.mem_singleton] at hP
    subst hP; exact isPart_nil
  | succ fuel ih =>
    cases l with
    | nil =>
      intro P hP
      simp only [partitions1Fuel, List.mem_singleton] at hP
      subst hP; exact isPart_nil
    | cons x t =>
      intro P hP
      obtain ⟨i, hi, b, hb, rfl⟩ := mem_partitions1Fuel_succ.mp hP
      have hperm := splitByMask_perm (x :: t) i
      have hlen := splitByMask_snd_length_lt (x :: t) i (by simp) hi
      have hnd2 : (splitByMask (x :: t) i).2.Nodup :=
        (List.nodup_append.mp (hperm.nodup_iff.mpr hl)).2.1
      exact isPart_cons (splitByMask_fst_ne_nil (x :: t) i (by simp) hi) hperm hl
        (ih _ (by simp only [List.length_cons] at hlen hf; omega) hnd2 b hb)

theorem partitions1Fuel_complete (fuel : Nat) (l : List β) (hf : l.length ≤ fuel) (hl : l.Nodup)
    (Q : List (List β)) (hQ : IsPart Q l) : ∃ P ∈ partitions1Fuel fuel l, Same P Q := by
  induction fuel generalizing l Q with
  | zero =>
    have : l = [] := List.eq_nil_of_length_eq_zero (by omega)
    subst this
    rw [hQ.eq_nil]
    exact ⟨[], by simp [partitions1Fuel], Same.refl _⟩
  | succ fuel ih =>
    cases l with
    | nil =>
      rw [hQ.eq_nil]
      exact ⟨[], by simp [partitions1Fuel], Same.refl _⟩
    | cons x t =>
      have hne : x :: t ≠ [] := by simp
      obtain ⟨B0, hB0, hz⟩ := (hQ.cover ((x :: t).getLast hne)).mpr (List.getLast_mem hne)
      have hperm := List.perm_cons_erase hB0
      have hQ' := hQ.perm hperm
      set s : β → Bool := fun y => decide (y ∈ B0) with hs
      have hsplit := splitByMask_maskOf s (x :: t)
      have hi := maskOf_lt s (x :: t) hne (by simpa [hs] using hz)
      have hlen := splitByMask_snd_length_lt (x :: t) _ hne hi
      have htail : IsPart (Q.erase B0) (splitByMask (x :: t) (maskOf s (x :: t))).2 := by
        rw [hsplit]
        refine hQ'.tail.of_mem_iff (fun y => ?_)
        simp [hs]
      have hnd2 : (splitByMask (x :: t) (maskOf s (x :: t))).2.Nodup := by
        rw [hsplit]; exact List.Nodup.filter _ hl
      obtain ⟨b, hb, hsame⟩ := ih _ (by simp only [List.length_cons] at hlen hf; omega) hnd2 _ htail
      refine ⟨_, mem_partitions1Fuel_succ.mpr ⟨_, hi, b, hb, rfl⟩, ?_⟩
      refine (Same.cons ?_ hsame).trans (Same.of_perm hperm.symm)
      intro y
      rw [hsplit]
      simp only [List.mem_filter, hs, decide_eq_true_eq, and_iff_right_iff_imp]
      exact fun hy => hQ.mem_of_mem hB0 hy


theorem getLast_mem_splitByMask_fst (l : List β) (i : Nat) (hl : l ≠ [])
    (hi : 2 * i < 2 ^ l.length) : l.getLast hl ∈ (splitByMask l i).1 := by
  induction l generalizing i with
  | nil => contradiction
  | cons x t ih =>
    cases t with
    | nil =>
      have : i = 0 := by simp at hi; omega
      subst this
      simp [splitByMask]
    | cons y t' =>
      have h := ih (i / 2) (by simp) (by
        simp only [List.length_cons, Nat.pow_succ] at hi ⊢
        omega)
      rw [splitByMask_cons, List.getLast_cons_cons]
      split
      · exact List.mem_cons_of_mem _ h
      · exact h

theorem splitByMask_fst_subset (l : List β) (i : Nat) : ∀ y ∈ (splitByMask l i).1, y ∈ l :=
  fun _ hy => (splitByMask_perm l i).mem_iff.mp (List.mem_append_left _ hy)

theorem splitByMask_inj (l : List β) (hl : l.Nodup) (i j : Nat) (hi : i < 2 ^ l.length)
    (hj : j < 2 ^ l.length)
    (h : ∀ y, y ∈ (splitByMask l i).1 ↔ y ∈ (splitByMask l j).1) : i = j := by
  induction l generalizing i j with
  | nil => simp at hi hj; omega
  | cons x t ih =>
    have hnd := List.nodup_cons.mp hl
    have hxi : x ∉ (splitByMask t (i / 2)).1 := fun hx => hnd.1 (splitByMask_fst_subset t _ x hx)
    have hxj : x ∉ (splitByMask t (j / 2)).1 := fun hx => hnd.1 (splitByMask_fst_subset t _ x hx)
    simp only [List.length_cons, Nat.pow_succ] at hi hj
    rw [splitByMask_cons, splitByMask_cons] at h
    have step : (∀ y, y ∈ (splitByMask t (i / 2)).1 ↔ y ∈ (splitByMask t (j / 2)).1) →
        i / 2 = j / 2 := ih hnd.2 (i / 2) (j / 2) (by omega) (by omega)
    by_cases hi2 : i % 2 = 0 <;> by_cases hj2 : j % 2 = 0
    · rw [if_pos hi2, if_pos hj2] at h
      have := step (fun y => by
        by_cases hy : y = x
        · subst hy; exact ⟨fun h' => absurd h' hxi, fun h' => absurd h' hxj⟩
        · have := h y
          simpa [hy] using this)
      omega
    · rw [if_pos hi2, if_neg hj2] at h
      exact absurd ((h x).mp List.mem_cons_self) hxj
    · rw [if_neg hi2, if_pos hj2] at h
      exact absurd ((h x).mpr List.mem_cons_self) hxi
    · rw [if_neg hi2, if_neg hj2] at h
      have := step h
      omega

theorem partitions1Fuel_distinct (fuel : Nat) (l : List β) (hf : l.length ≤ fuel) (hl : l.Nodup) :
    (partitions1Fuel fuel l).Pairwise (fun P P' => ¬ Same P P') := by
  induction fuel generalizing l with
  | zero =>
    have : l = [] := List.eq_nil_of_length_eq_zero (by omega)
    subst this
    simp [partitions1Fuel]
  | succ fuel ih =>
    cases l with
    | nil => simp [partitions1Fuel]
    | cons x t =>
      have hne : x :: t ≠ [] := by simp
      have e : ∀ i, i < 2 ^ (x :: t).length / 2 ↔ 2 * i < 2 ^ (x :: t).length := by
        intro i
        rw [List.length_cons, Nat.pow_succ]
        omega
      have hpart : ∀ i, 2 * i < 2 ^ (x :: t).length →
          ∀ b ∈ partitions1Fuel fuel (splitByMask (x :: t) i).2,
            IsPart ((splitByMask (x :: t) i).1 :: b) (x :: t) := fun i hi b hb =>
        partitions1Fuel_isPart (fuel + 1) (x :: t) hf hl _
          (mem_partitions1Fuel_succ.mpr ⟨i, hi, b, hb, rfl⟩)
      rw [partitions1Fuel, List.pairwise_flatMap]
      constructor
      · intro i hi
        have hi' := (e i).mp (List.mem_range.mp hi)
        have hperm := splitByMask_perm (x :: t) i
        have hlen := splitByMask_snd_length_lt (x :: t) i hne hi'
        have hnd2 : (splitByMask (x :: t) i).2.Nodup :=
          (List.nodup_append.mp (hperm.nodup_iff.mpr hl)).2.1
        dsimp only
        rw [List.pairwise_map]
        refine (ih _ (by simp only [List.length_cons] at hlen hf; omega) hnd2).imp_of_mem ?_
        intro b b' hb hb' hne' hs
        exact hne' (Same.tail (hpart i hi' b hb) (hpart i hi' b' hb') (fun _ => Iff.rfl) hs)
      · refine List.pairwise_lt_range.imp_of_mem ?_
        intro i j hi hj hij P hP P' hP' hs
        have hi' := (e i).mp (List.mem_range.mp hi)
        have hj' := (e j).mp (List.mem_range.mp hj)
        dsimp only at hP hP'
        obtain ⟨b, hb, rfl⟩ := List.mem_map.mp hP
        obtain ⟨b', hb', rfl⟩ := List.mem_map.mp hP'
        have hs' := hs.block_of (hpart j hj' b' hb') List.mem_cons_self List.mem_cons_self
          (getLast_mem_splitByMask_fst (x :: t) i hne hi')
          (getLast_mem_splitByMask_fst (x :: t) j hne hj')
        have := splitByMask_inj (x :: t) hl i j (by omega) (by omega) hs'
        omega

theorem Same.eq_key {P Q : List (List β)} :
    Same P Q ↔ (blocksF P).toFinset = (blocksF Q).toFinset := by
  rw [same_iff_blocksF, Finset.ext_iff]
  simp only [List.mem_toFinset]

/-- Two enumerations without repetition that list the same set partitions have the same length. -/
theorem length_eq_of_same {L1 L2 : List (List (List β))}
    (h1 : L1.Pairwise (fun P P' => ¬ Same P P')) (h2 : L2.Pairwise (fun P P' => ¬ Same P P'))
    (h12 : ∀ P ∈ L1, ∃ P' ∈ L2, Same P P') (h21 : ∀ P' ∈ L2, ∃ P ∈ L1, Same P P') :
    L1.length = L2.length := by
  let key : List (List β) → Finset (Finset β) := fun P => (blocksF P).toFinset
  have n1 : (L1.map key).Nodup := by
    unfold List.Nodup
    rw [List.pairwise_map]
    exact h1.imp (fun h he => h (Same.eq_key.mpr he))
  have n2 : (L2.map key).Nodup := by
    unfold List.Nodup
    rw [List.pairwise_map]
    exact h2.imp (fun h he => h (Same.eq_key.mpr he))
  have hp : (L1.map key).Perm (L2.map key) := by
    rw [List.perm_ext_iff_of_nodup n1 n2]
    intro S
    simp only [List.mem_map]
    constructor
    · rintro ⟨P, hP, rfl⟩
      obtain ⟨P', hP', hs⟩ := h12 P hP
      exact ⟨P', hP', (Same.eq_key.mp hs).symm⟩
    · rintro ⟨P', hP', rfl⟩
      obtain ⟨P, hP, hs⟩ := h21 P' hP'
      exact ⟨P, hP, Same.eq_key.mp hs⟩
  simpa using hp.length_eq

end Partitions1

/-! ### Functional common information: feasibility of a partition of the outcomes -/

section Fci
variable {σ : Type} [DecidableEq σ] {α : Type} [Field α] [DecidableEq α]
open Dit.Lemmas.Table

theorem mpow_eq (x : α) (n : Nat) : mpow x n = x ^ n := by
  induction n with
  | zero => simp [mpow]
  | succ n ih => rw [mpow, ih, pow_succ']

theorem foldl_mul_eq (l : List α) (a : α) : l.foldl (· * ·) a = a * l.prod := by
  induction l generalizing a with
  | nil => simp
  | cons x l ih => simp [ih, mul_assoc]

theorem prod_map_div {ι : Type} (l : List ι) (f : ι → α) (c : α) :
    (l.map (fun a => f a / c)).prod = (l.map f).prod / c ^ l.length := by
  induction l with
  | nil => simp
  | cons x l ih =>
    simp only [List.map_cons, List.prod_cons, ih, List.length_cons, pow_succ']
    rw [div_mul_div_comm]

theorem length_of_mem_blockValueTuples (B : List (List σ)) (groups : List (List Nat))
    (vs : List (List σ)) (h : vs ∈ blockValueTuples B groups) : vs.length = groups.length := by
  induction groups generalizing vs with
  | nil =>
    simp only [blockValueTuples, List.mem_singleton] at h
    subst h; rfl
  | cons g gs ih =>
    simp only [blockValueTuples, List.mem_flatMap, List.mem_map] at h
    obtain ⟨v, -, vs', hvs', rfl⟩ := h
    simp [ih vs' hvs']

theorem mem_blockValueTuples_congr {B B' : List (List σ)} (h : ∀ o, o ∈ B ↔ o ∈ B')
    (groups : List (List Nat)) (vs : List (List σ)) :
    vs ∈ blockValueTuples B groups ↔ vs ∈ blockValueTuples B' groups := by
  induction groups generalizing vs with
  | nil => simp [blockValueTuples]
  | cons g gs ih =>
    simp only [blockValueTuples, List.mem_flatMap, List.mem_map, mem_dedup, h, ih]

/-- What one test of `blockIndep` says, with division. -/
theorem indep_test_iff (J M : α) (hM : M ≠ 0) (k : Nat) (hk : k ≠ 0) (ms : List α)
    (hms : ms.length = k) :
    J * mpow M (k - 1) = ms.foldl (· * ·) 1 ↔ J / M = (ms.map (fun m => m / M)).prod := by
  obtain ⟨k', rfl⟩ := Nat.exists_eq_succ_of_ne_zero hk
  have hp := prod_map_div ms (fun m => m) M
  simp only [List.map_id'] at hp
  rw [hp, hms, mpow_eq, foldl_mul_eq, one_mul, Nat.succ_sub_one,
    div_eq_div_iff hM (pow_ne_zero _ hM), pow_succ, ← mul_assoc]
  constructor
  · intro h; rw [h]
  · intro h; exact mul_right_cancel₀ hM h

theorem blockIndep_iff' (t : Tab (List σ) α) (groups : List (List Nat)) (hg : groups ≠ [])
    (B : List (List σ)) (hm : blockMass t B ≠ 0) :
    blockIndep t groups B = true ↔
      ∀ vs ∈ blockValueTuples B groups,
        blockJoint t B groups vs / blockMass t B
          = ((groups.zip vs).map (fun gv => blockMargin t B gv.1 gv.2 / blockMass t B)).prod := by
  unfold blockIndep
  rw [List.all_eq_true]
  refine forall₂_congr (fun vs hvs => ?_)
  rw [decide_eq_true_eq]
  have hlen := length_of_mem_blockValueTuples B groups vs hvs
  have := indep_test_iff (blockJoint t B groups vs) (blockMass t B) hm groups.length
    (by simpa using hg) ((groups.zip vs).map (fun gv => blockMargin t B gv.1 gv.2))
    (by simp [hlen])
  rw [this, List.map_map]
  rfl

theorem dedup_singleton {κ : Type} [DecidableEq κ] (v : κ) : dedup [v] = [v] := by
  simp [dedup]

theorem blockValueTuples_singleton (o : List σ) (groups : List (List Nat)) :
    blockValueTuples [o] groups = [groups.map (fun g => project g o)] := by
  induction groups with
  | nil => rfl
  | cons g gs ih => simp [blockValueTuples, dedup_singleton, ih]

theorem lsum_singleton (p : α) : lsum [p] = p := by simp [lsum]

theorem foldl_margins_singleton (t : Tab (List σ) α) (o : List σ) (groups : List (List Nat))
    (a : α) :
    ((groups.zip (groups.map (fun g => project g o))).map
        (fun gv => blockMargin t [o] gv.1 gv.2)).foldl (· * ·) a
      = a * lookupD 0 t o ^ groups.length := by
  induction groups generalizing a with
  | nil => simp
  | cons g gs ih =>
    simp only [List.map_cons, List.zip_cons_cons, List.foldl_cons, ih, List.length_cons]
    have : blockMargin t [o] g (project g o) = lookupD 0 t o := by
      simp [blockMargin, lsum_singleton]
    rw [this, pow_succ', mul_assoc]

theorem blockIndep_singleton (t : Tab (List σ) α) (groups : List (List Nat)) (hg : groups ≠ [])
    (o : List σ) : blockIndep t groups [o] = true := by
  unfold blockIndep
  rw [blockValueTuples_singleton]
  simp only [List.all_cons, List.all_nil, Bool.and_true, decide_eq_true_eq]
  rw [foldl_margins_singleton, mpow_eq]
  have hJ : blockJoint t [o] groups (groups.map (fun g => project g o)) = lookupD 0 t o := by
    simp [blockJoint, lsum_singleton]
  have hM : blockMass t [o] = lookupD 0 t o := by simp [blockMass, lsum_singleton]
  rw [hJ, hM, one_mul, ← pow_succ']
  congr 1
  have : groups.length ≠ 0 := by simpa using hg
  omega

theorem map_singleton_mem_setPartitions {β : Type} (l : List β) :
    l.map (fun o => [o]) ∈ setPartitions l := by
  induction l with
  | nil => simp [setPartitions]
  | cons x t ih =>
    simp only [setPartitions, List.mem_flatMap, List.mem_cons, List.map_cons]
    exact ⟨_, ih, Or.inl rfl⟩

theorem fciFeasible_finest (t : Tab (List σ) α) (groups : List (List Nat)) (hg : groups ≠ [])
    (l : List (List σ)) : fciFeasible t groups (l.map (fun o => [o])) = true := by
  unfold fciFeasible
  rw [List.all_eq_true]
  intro B hB
  obtain ⟨o, -, rfl⟩ := List.mem_map.mp hB
  exact blockIndep_singleton t groups hg o

/-! Invariance under reordering the members of a block -/

theorem blockMass_perm (t : Tab (List σ) α) {B B' : List (List σ)} (h : B.Perm B') :
    blockMass t B = blockMass t B' := by
  unfold blockMass
  rw [lsum_eq_sum, lsum_eq_sum]
  exact (h.map _).sum_eq

theorem blockMargin_perm (t : Tab (List σ) α) {B B' : List (List σ)} (h : B.Perm B')
    (g : List Nat) (v : List σ) : blockMargin t B g v = blockMargin t B' g v := by
  unfold blockMargin
  rw [lsum_eq_sum, lsum_eq_sum]
  exact ((h.filter _).map _).sum_eq

theorem blockJoint_perm (t : Tab (List σ) α) {B B' : List (List σ)} (h : B.Perm B')
    (groups : List (List Nat)) (vs : List (List σ)) :
    blockJoint t B groups vs = blockJoint t B' groups vs := by
  unfold blockJoint
  rw [lsum_eq_sum, lsum_eq_sum]
  exact ((h.filter _).map _).sum_eq

theorem blockIndep_perm (t : Tab (List σ) α) (groups : List (List Nat)) {B B' : List (List σ)}
    (h : B.Perm B') : blockIndep t groups B = blockIndep t groups B' := by
  rw [Bool.eq_iff_iff]
  unfold blockIndep
  rw [List.all_eq_true, List.all_eq_true]
  have hm : ∀ o, o ∈ B ↔ o ∈ B' := fun _ => h.mem_iff
  have e : ∀ vs, vs ∈ blockValueTuples B groups ↔ vs ∈ blockValueTuples B' groups :=
    mem_blockValueTuples_congr hm groups
  have hmargin : ∀ vs : List (List σ),
      (groups.zip vs).map (fun gv => blockMargin t B gv.1 gv.2)
        = (groups.zip vs).map (fun gv => blockMargin t B' gv.1 gv.2) :=
    fun vs => List.map_congr_left (fun gv _ => blockMargin_perm t h gv.1 gv.2)
  constructor
  · intro H vs hvs
    have := H vs ((e vs).mpr hvs)
    rwa [blockJoint_perm t h, blockMass_perm t h, hmargin] at this
  · intro H vs hvs
    have := H vs ((e vs).mp hvs)
    rwa [← blockJoint_perm t h, ← blockMass_perm t h, ← hmargin] at this

theorem blockIndep_congr (t : Tab (List σ) α) (groups : List (List Nat)) {B B' : List (List σ)}
    (hB : B.Nodup) (hB' : B'.Nodup) (h : ∀ o, o ∈ B ↔ o ∈ B') :
    blockIndep t groups B = blockIndep t groups B' :=
  blockIndep_perm t groups ((List.perm_ext_iff_of_nodup hB hB').mpr h)

theorem fciFeasible_congr' (t : Tab (List σ) α) (groups : List (List Nat))
    {P Q : List (List (List σ))} {l l' : List (List σ)} (hP : IsPart P l) (hQ : IsPart Q l')
    (h : Same P Q) : fciFeasible t groups P = fciFeasible t groups Q := by
  rw [Bool.eq_iff_iff]
  unfold fciFeasible
  rw [List.all_eq_true, List.all_eq_true]
  constructor
  · intro H B' hB'
    obtain ⟨B, hB, e⟩ := h.2 B' hB'
    rw [← blockIndep_congr t groups (hP.nodup B hB) (hQ.nodup B' hB') e]
    exact H B hB
  · intro H B hB
    obtain ⟨B', hB', e⟩ := h.1 B hB
    rw [blockIndep_congr t groups (hP.nodup B hB) (hQ.nodup B' hB') e]
    exact H B' hB'

theorem partMasses_perm (t : Tab (List σ) α) {P Q : List (List (List σ))} {l l' : List (List σ)}
    (hP : IsPart P l) (hQ : IsPart Q l') (h : Same P Q) :
    (partMasses t P).Perm (partMasses t Q) := by
  have key : ∀ {P : List (List (List σ))} {l : List (List σ)}, IsPart P l →
      partMasses t P = (blocksF P).map (fun S => ∑ o ∈ S, lookupD 0 t o) := by
    intro P l hP
    unfold partMasses blocksF
    rw [List.map_map]
    refine List.map_congr_left (fun B hB => ?_)
    simp only [Function.comp, blockMass, lsum_eq_sum]
    exact (List.sum_toFinset _ (hP.nodup B hB)).symm
  rw [key hP, key hQ]
  exact (h.perm_blocksF hP hQ).map _

theorem lookupD_of_mem {t : Tab (List σ) α} (hk : (keys t).Nodup) {r : List σ × α} (hr : r ∈ t) :
    lookupD 0 t r.1 = r.2 := by
  unfold lookupD
  rw [(lookup?_eq_some_iff hk).mpr (show (r.1, r.2) ∈ t from hr)]
  rfl

theorem partMasses_sum' (t : Tab (List σ) α) (hk : (keys t).Nodup) (P : List (List (List σ)))
    (hP : IsPart P (keys t)) : (partMasses t P).sum = (t.map (·.2)).sum := by
  have hnd : P.flatten.Nodup := by
    rw [List.nodup_flatten]
    exact ⟨hP.nodup, hP.disjoint.imp (fun h a ha hb => h a ha hb)⟩
  have hperm : P.flatten.Perm (keys t) := by
    rw [List.perm_ext_iff_of_nodup hnd hk]
    intro o
    rw [List.mem_flatten, ← hP.cover o]
  have h1 : (partMasses t P).sum = (P.flatten.map (fun o => lookupD 0 t o)).sum := by
    unfold partMasses
    rw [List.map_flatten, List.sum_flatten, List.map_map]
    congr 1
    refine List.map_congr_left (fun B _ => ?_)
    simp [blockMass, lsum_eq_sum]
  rw [h1, (hperm.map _).sum_eq, keys, List.map_map]
  congr 1
  exact List.map_congr_left (fun r hr => lookupD_of_mem hk hr)

end Fci

end Dit.Lemmas.SetPart
