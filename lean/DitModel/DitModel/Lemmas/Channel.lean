/-
Helper lemmas for C13 (channel capacity and rate–distortion, `Core/Channel.lean`) over `ℝ` with
`log := Real.logb 2`, `exp2 := fun x => 2 ^ x`.

* list ↔ finite-sum bridge: every Core quantity is rewritten as a double sum over
  `Finset.range n × Finset.range m` of the entries `ent P x y = (P.getD x []).getD y 0`;
* the finitary core (over arbitrary `Finset`s): the "golden formula"
  `Σ_x r_x D(P_x‖q') − I(r;P) = D(rP‖q') ≥ 0`, the mean–max inequality, and the
  Csiszár/Berger lower bound for rate–distortion;
* `lmaxOf` is the greatest element.
Property theorems are in Props/C13.lean.
-/
import DitModel.Core.Channel
import DitModel.Lemmas.Table
import DitModel.Lemmas.InfoReal
import Mathlib.Analysis.SpecialFunctions.Log.Base
import Mathlib.Analysis.SpecialFunctions.Pow.Real
import Mathlib.Algebra.BigOperators.Group.Finset.Basic
import Mathlib.Algebra.Order.BigOperators.Ring.Finset
import Mathlib.Tactic.Linarith
import Mathlib.Tactic.Ring
import Mathlib.Tactic.FieldSimp
import Mathlib.Tactic.Positivity
import Mathlib.Tactic.NormNum
import Mathlib.Tactic.IntervalCases
import Mathlib.Tactic.LinearCombination

set_option linter.unusedSectionVars false

namespace Dit.Lemmas.Channel
open Dit Dit.Lemmas.Table Finset

/-! ### Entries, laws, channels -/

/-- Entry `x` of a vector (0 outside). -/
def vec (r : List ℝ) (x : ℕ) : ℝ := r.getD x 0
/-- Entry `(x, y)` of a matrix given as a list of rows (0 outside). -/
def ent (P : List (List ℝ)) (x y : ℕ) : ℝ := vec (P.getD x []) y

/-- `r` is a probability vector of length `n`. -/
structure IsLaw (r : List ℝ) (n : ℕ) : Prop where
  len : r.length = n
  nonneg : ∀ a ∈ r, 0 ≤ a
  sum_one : r.sum = 1

/-- `d` is an `n × m` matrix. -/
structure IsMat (d : List (List ℝ)) (n m : ℕ) : Prop where
  len : d.length = n
  row : ∀ row ∈ d, row.length = m

/-- `P` is an `n × m` row-stochastic matrix (a channel with `n` input and `m` output letters). -/
structure IsChannel (P : List (List ℝ)) (n m : ℕ) : Prop where
  len : P.length = n
  row : ∀ row ∈ P, IsLaw row m

theorem IsChannel.isMat {P : List (List ℝ)} {n m : ℕ} (h : IsChannel P n m) : IsMat P n m :=
  ⟨h.len, fun row hr => (h.row row hr).len⟩

/-! ### Lists as range sums -/

theorem sum_range_map (n : ℕ) (g : ℕ → ℝ) :
    ((List.range n).map g).sum = ∑ i ∈ range n, g i := by
  induction n with
  | zero => simp
  | succ n ih => rw [List.range_succ, List.map_append, List.sum_append, ih, sum_range_succ]; simp

theorem sum_zipWith_range {β γ : Type} (f : β → γ → ℝ) (d1 : β) (d2 : γ) (l1 : List β)
    (l2 : List γ) (n : ℕ) (h1 : l1.length = n) (h2 : l2.length = n) :
    (List.zipWith f l1 l2).sum = ∑ i ∈ range n, f (l1.getD i d1) (l2.getD i d2) := by
  induction l1 generalizing l2 n with
  | nil => subst h1; simp
  | cons a l1 ih =>
    cases l2 with
    | nil => subst h2; simp at h1
    | cons b l2 =>
      cases n with
      | zero => simp at h1
      | succ n =>
        rw [List.zipWith_cons_cons, List.sum_cons, sum_range_succ',
          ih l2 n (by simpa using h1) (by simpa using h2)]
        simp [add_comm]

theorem sum_map_range {β : Type} (f : β → ℝ) (d : β) (l : List β) (n : ℕ) (h : l.length = n) :
    (l.map f).sum = ∑ i ∈ range n, f (l.getD i d) := by
  have := sum_zipWith_range (fun a (_ : β) => f a) d d l l n h h
  rw [← this, List.zipWith_self]

theorem vec_range_map (k : ℕ) (g : ℕ → ℝ) (y : ℕ) (hy : y < k) :
    vec ((List.range k).map g) y = g y := by
  simp [vec, List.getD_eq_getElem?_getD, hy]

theorem vec_of_le (r : List ℝ) (x : ℕ) (h : r.length ≤ x) : vec r x = 0 := by
  simp [vec, List.getD_eq_getElem?_getD, h]

theorem getD_mem {β : Type} (l : List β) (d : β) (i : ℕ) (h : i < l.length) : l.getD i d ∈ l := by
  simp [List.getD_eq_getElem?_getD, h]

theorem IsLaw.vec_nonneg {r : List ℝ} {n : ℕ} (h : IsLaw r n) (x : ℕ) : 0 ≤ vec r x := by
  by_cases hx : x < r.length
  · exact h.nonneg _ (getD_mem r 0 x hx)
  · rw [vec_of_le r x (by omega)]

theorem IsLaw.sum_vec {r : List ℝ} {n : ℕ} (h : IsLaw r n) : ∑ x ∈ range n, vec r x = 1 := by
  have := sum_map_range (fun a => a) 0 r n h.len
  rw [List.map_id'] at this
  rw [← h.sum_one, this]; rfl

theorem IsLaw.pos_len {r : List ℝ} {n : ℕ} (h : IsLaw r n) : 0 < n := by
  rcases Nat.eq_zero_or_pos n with h0 | h0
  · have := h.sum_vec; rw [h0] at this; simp at this
  · exact h0

theorem IsMat.row_len {P : List (List ℝ)} {n m : ℕ} (h : IsMat P n m) {x : ℕ} (hx : x < n) :
    (P.getD x []).length = m :=
  h.row _ (getD_mem P [] x (by rw [h.len]; exact hx))

theorem IsChannel.row_law {P : List (List ℝ)} {n m : ℕ} (h : IsChannel P n m) {x : ℕ}
    (hx : x < n) : IsLaw (P.getD x []) m :=
  h.row _ (getD_mem P [] x (by rw [h.len]; exact hx))

theorem IsChannel.ent_nonneg {P : List (List ℝ)} {n m : ℕ} (h : IsChannel P n m) (x y : ℕ) :
    0 ≤ ent P x y := by
  by_cases hx : x < n
  · exact (h.row_law hx).vec_nonneg y
  · have : P.getD x [] = [] := by
      simp [List.getD_eq_getElem?_getD, h.len, Nat.le_of_not_lt hx]
    unfold ent; rw [this]; simp [vec]

theorem IsChannel.sum_ent {P : List (List ℝ)} {n m : ℕ} (h : IsChannel P n m) {x : ℕ}
    (hx : x < n) : ∑ y ∈ range m, ent P x y = 1 :=
  (h.row_law hx).sum_vec

/-! ### Unfolding the Core definitions into range sums -/

theorem guard (log : ℝ → ℝ) (a b : ℝ) : (if a == 0 then 0 else a * log b) = a * log b := by
  by_cases h : a = 0 <;> simp [h]

theorem klRow_eq (p q : List ℝ) (m : ℕ) (hp : p.length = m) (hq : q.length = m) :
    klRow (Real.logb 2) p q = ∑ y ∈ range m, vec p y * Real.logb 2 (vec p y / vec q y) := by
  unfold klRow
  rw [lsum_eq_sum, sum_zipWith_range _ 0 0 p q m hp hq]
  exact sum_congr rfl (fun y _ => guard _ _ _)

theorem outputLaw_length (r : List ℝ) (P : List (List ℝ)) (n m : ℕ) (hP : IsMat P n m)
    (hn : 0 < n) : (outputLaw r P).length = m := by
  cases P with
  | nil => have := hP.len; simp at this; omega
  | cons row P' => simp [outputLaw, hP.row row List.mem_cons_self]

theorem ent_of_le (P : List (List ℝ)) (n m : ℕ) (hP : IsMat P n m) (x y : ℕ) (hy : m ≤ y) :
    ent P x y = 0 := by
  by_cases hx : x < n
  · exact vec_of_le _ _ (by rw [hP.row_len hx]; exact hy)
  · have : P.getD x [] = [] := by
      simp [List.getD_eq_getElem?_getD, hP.len, Nat.le_of_not_lt hx]
    unfold ent; rw [this]; simp [vec]

theorem vec_outputLaw (r : List ℝ) (P : List (List ℝ)) (n m : ℕ) (hr : r.length = n)
    (hP : IsMat P n m) (y : ℕ) :
    vec (outputLaw r P) y = ∑ x ∈ range n, vec r x * ent P x y := by
  by_cases hy : y < m
  · cases P with
    | nil => have := hP.len; simp at this; subst this; simp [outputLaw, vec]
    | cons row P' =>
      have hrow : row.length = m := hP.row row List.mem_cons_self
      have e : outputLaw r (row :: P') = (List.range row.length).map (fun y =>
          lsum (List.zipWith (fun rx px => rx * px.getD y 0) r (row :: P'))) := rfl
      rw [e, hrow, vec_range_map m _ y hy, lsum_eq_sum,
        sum_zipWith_range _ 0 [] r (row :: P') n hr hP.len]
      rfl
  · have h0 : ∀ x ∈ range n, vec r x * ent P x y = 0 := fun x _ => by
      rw [ent_of_le P n m hP x y (by omega), mul_zero]
    rw [sum_eq_zero h0]
    apply vec_of_le
    cases P with
    | nil => simp [outputLaw]
    | cons row P' =>
      have hrow : row.length = m := hP.row row List.mem_cons_self
      simp [outputLaw, hrow]; omega

/-- `channelMI` as a double sum: `Σ_x Σ_y r_x P_xy log₂ (P_xy / (rP)_y)`. -/
theorem channelMI_eq (r : List ℝ) (P : List (List ℝ)) (n m : ℕ) (hr : r.length = n)
    (hP : IsMat P n m) :
    channelMI (Real.logb 2) r P = ∑ x ∈ range n, vec r x *
      ∑ y ∈ range m, ent P x y * Real.logb 2 (ent P x y / vec (outputLaw r P) y) := by
  unfold channelMI
  rw [lsum_eq_sum, sum_zipWith_range _ 0 [] r P n hr hP.len]
  apply sum_congr rfl
  intro x hx
  have hx' : x < n := mem_range.mp hx
  rw [klRow_eq _ _ m (hP.row_len hx') (outputLaw_length r P n m hP (by omega))]
  rfl

/-- The list of row divergences against `q`, entrywise. -/
theorem klRows_getD (P : List (List ℝ)) (q : List ℝ) (n m : ℕ) (hP : IsMat P n m)
    (hq : q.length = m) (x : ℕ) (hx : x < n) :
    (P.map (fun px => klRow (Real.logb 2) px q)).getD x 0
      = ∑ y ∈ range m, ent P x y * Real.logb 2 (ent P x y / vec q y) := by
  have hx' : x < P.length := by rw [hP.len]; exact hx
  rw [List.getD_eq_getElem?_getD, List.getElem?_map, List.getElem?_eq_getElem hx']
  simp only [Option.map_some, Option.getD_some]
  rw [klRow_eq _ _ m (hP.row _ (List.getElem_mem hx')) hq]
  simp [ent, List.getD_eq_getElem?_getD, List.getElem?_eq_getElem hx']

/-! ### The finitary core: capacity -/

section Core
variable {ι κ : Type}

theorem golden_term (r P q q' : ℝ) (hr : 0 ≤ r) (hP : 0 ≤ P) (hq : r * P ≤ q)
    (hq' : r ≠ 0 → q' = 0 → P = 0) :
    r * (P * Real.logb 2 (P / q')) - r * (P * Real.logb 2 (P / q))
      = r * P * Real.logb 2 (q / q') := by
  by_cases h1 : r = 0
  · simp [h1]
  by_cases h2 : P = 0
  · simp [h2]
  have hrpos : 0 < r := lt_of_le_of_ne hr (Ne.symm h1)
  have hPpos : 0 < P := lt_of_le_of_ne hP (Ne.symm h2)
  have hqpos : 0 < q := lt_of_lt_of_le (mul_pos hrpos hPpos) hq
  have hq'ne : q' ≠ 0 := fun h => h2 (hq' h1 h)
  rw [Real.logb_div h2 hq'ne, Real.logb_div h2 hqpos.ne', Real.logb_div hqpos.ne' hq'ne]
  ring

/-- The golden formula: `Σ_x r_x D(P_x‖q') − I(r;P) = D(rP‖q')`. -/
theorem golden (s : Finset ι) (t : Finset κ) (r : ι → ℝ) (P : ι → κ → ℝ) (q' : κ → ℝ)
    (hr : ∀ x ∈ s, 0 ≤ r x) (hP : ∀ x ∈ s, ∀ y ∈ t, 0 ≤ P x y)
    (hdom : ∀ x ∈ s, r x ≠ 0 → ∀ y ∈ t, q' y = 0 → P x y = 0) :
    ∑ x ∈ s, r x * ∑ y ∈ t, P x y * Real.logb 2 (P x y / q' y)
      - ∑ x ∈ s, r x * ∑ y ∈ t, P x y * Real.logb 2 (P x y / ∑ x' ∈ s, r x' * P x' y)
      = ∑ y ∈ t, (∑ x ∈ s, r x * P x y) * Real.logb 2 ((∑ x ∈ s, r x * P x y) / q' y) := by
  simp only [mul_sum, sum_mul]
  rw [← sum_sub_distrib, sum_comm]
  apply sum_congr rfl
  intro x hx
  rw [← sum_sub_distrib]
  apply sum_congr rfl
  intro y hy
  apply golden_term _ _ _ _ (hr x hx) (hP x hx y hy) _ (fun h => hdom x hx h y hy)
  exact single_le_sum (f := fun x' => r x' * P x' y)
    (fun x' hx' => mul_nonneg (hr x' hx') (hP x' hx' y hy)) hx

/-- `I(r;P) ≤ Σ_x r_x D(P_x‖q')` for every sub-probability `q'` dominating the used rows. -/
theorem mi_le_cross (s : Finset ι) (t : Finset κ) (r : ι → ℝ) (P : ι → κ → ℝ) (q' : κ → ℝ)
    (hr : ∀ x ∈ s, 0 ≤ r x) (hP : ∀ x ∈ s, ∀ y ∈ t, 0 ≤ P x y)
    (hq' : ∀ y ∈ t, 0 ≤ q' y)
    (hsum : ∑ y ∈ t, q' y ≤ ∑ y ∈ t, ∑ x ∈ s, r x * P x y)
    (hdom : ∀ x ∈ s, r x ≠ 0 → ∀ y ∈ t, q' y = 0 → P x y = 0) :
    ∑ x ∈ s, r x * ∑ y ∈ t, P x y * Real.logb 2 (P x y / ∑ x' ∈ s, r x' * P x' y)
      ≤ ∑ x ∈ s, r x * ∑ y ∈ t, P x y * Real.logb 2 (P x y / q' y) := by
  have h := golden s t r P q' hr hP hdom
  have hg := Lemmas.InfoReal.gibbs t (fun y => ∑ x ∈ s, r x * P x y) q'
    (fun y hy => sum_nonneg (fun x hx => mul_nonneg (hr x hx) (hP x hx y hy))) hq' hsum
    (fun y hy h0 => sum_eq_zero (fun x hx => by
      by_cases h1 : r x = 0
      · simp [h1]
      · rw [hdom x hx h1 y hy h0, mul_zero]))
  linarith

/-- A weighted mean is at most any common upper bound. -/
theorem mean_le (s : Finset ι) (r a : ι → ℝ) (C : ℝ) (hr : ∀ x ∈ s, 0 ≤ r x)
    (hs : ∑ x ∈ s, r x = 1) (ha : ∀ x ∈ s, a x ≤ C) : ∑ x ∈ s, r x * a x ≤ C := by
  calc ∑ x ∈ s, r x * a x ≤ ∑ x ∈ s, r x * C :=
        sum_le_sum (fun x hx => mul_le_mul_of_nonneg_left (ha x hx) (hr x hx))
    _ = C := by rw [← sum_mul, hs, one_mul]

/-- Total mass of the output law. -/
theorem sum_out (s : Finset ι) (t : Finset κ) (r : ι → ℝ) (P : ι → κ → ℝ)
    (hrow : ∀ x ∈ s, ∑ y ∈ t, P x y = 1) :
    ∑ y ∈ t, ∑ x ∈ s, r x * P x y = ∑ x ∈ s, r x := by
  rw [sum_comm]
  apply sum_congr rfl
  intro x hx
  rw [← mul_sum, hrow x hx, mul_one]

/-- Mutual information is non-negative. -/
theorem mi_nonneg (s : Finset ι) (t : Finset κ) (r : ι → ℝ) (P : ι → κ → ℝ)
    (hr : ∀ x ∈ s, 0 ≤ r x) (hs : ∑ x ∈ s, r x ≤ 1) (hP : ∀ x ∈ s, ∀ y ∈ t, 0 ≤ P x y)
    (hrow : ∀ x ∈ s, ∑ y ∈ t, P x y = 1) :
    0 ≤ ∑ x ∈ s, r x * ∑ y ∈ t, P x y * Real.logb 2 (P x y / ∑ x' ∈ s, r x' * P x' y) := by
  apply sum_nonneg
  intro x hx
  by_cases h1 : r x = 0
  · simp [h1]
  have hrpos : 0 < r x := lt_of_le_of_ne (hr x hx) (Ne.symm h1)
  apply mul_nonneg (hr x hx)
  apply Lemmas.InfoReal.gibbs t (P x) (fun y => ∑ x' ∈ s, r x' * P x' y) (hP x hx)
    (fun y hy => sum_nonneg (fun x' hx' => mul_nonneg (hr x' hx') (hP x' hx' y hy)))
  · rw [sum_out s t r P hrow, hrow x hx]; exact hs
  · intro y hy h0
    have hle : r x * P x y ≤ ∑ x' ∈ s, r x' * P x' y :=
      single_le_sum (f := fun x' => r x' * P x' y)
        (fun x' hx' => mul_nonneg (hr x' hx') (hP x' hx' y hy)) hx
    have h2 : r x * P x y ≤ 0 := by rw [h0] at hle; exact hle
    have h3 := hP x hx y hy
    by_contra hne
    have : 0 < r x * P x y := mul_pos hrpos (lt_of_le_of_ne h3 (Ne.symm hne))
    linarith

end Core

/-! ### `lmaxOf` is the greatest element -/

section Max

theorem foldl_max_spec (t : List ℝ) (x : ℝ) :
    x ≤ t.foldl (fun m y => if m < y then y else m) x
    ∧ (∀ a ∈ t, a ≤ t.foldl (fun m y => if m < y then y else m) x)
    ∧ (t.foldl (fun m y => if m < y then y else m) x = x
        ∨ t.foldl (fun m y => if m < y then y else m) x ∈ t) := by
  induction t generalizing x with
  | nil => simp
  | cons b t ih =>
    rw [List.foldl_cons]
    obtain ⟨h1, h2, h3⟩ := ih (if x < b then b else x)
    have hx : x ≤ if x < b then b else x := by split <;> linarith
    have hb : b ≤ if x < b then b else x := by
      split
      · exact le_refl _
      · linarith
    refine ⟨le_trans hx h1, ?_, ?_⟩
    · intro a ha
      rcases List.mem_cons.mp ha with rfl | ha
      · exact le_trans hb h1
      · exact h2 a ha
    · rcases h3 with h3 | h3
      · rw [h3]
        by_cases hxb : x < b
        · right; simp [hxb]
        · left; simp [hxb]
      · right; exact List.mem_cons_of_mem _ h3

theorem lmaxOf_ge (l : List ℝ) : ∀ a ∈ l, a ≤ lmaxOf l := by
  cases l with
  | nil => simp
  | cons x t =>
    intro a ha
    obtain ⟨h1, h2, _⟩ := foldl_max_spec t x
    rcases List.mem_cons.mp ha with rfl | ha
    · exact h1
    · exact h2 a ha

theorem lmaxOf_mem (l : List ℝ) (h : l ≠ []) : lmaxOf l ∈ l := by
  cases l with
  | nil => exact absurd rfl h
  | cons x t =>
    obtain ⟨_, _, h3⟩ := foldl_max_spec t x
    change t.foldl (fun m y => if m < y then y else m) x ∈ x :: t
    rcases h3 with h3 | h3
    · rw [h3]; exact List.mem_cons_self
    · exact List.mem_cons_of_mem _ h3

theorem lmaxOf_le (l : List ℝ) (h : l ≠ []) (C : ℝ) (hC : ∀ a ∈ l, a ≤ C) : lmaxOf l ≤ C :=
  hC _ (lmaxOf_mem l h)

theorem getD_le_lmaxOf (l : List ℝ) (x : ℕ) (hx : x < l.length) : l.getD x 0 ≤ lmaxOf l :=
  lmaxOf_ge l _ (getD_mem l 0 x hx)

end Max

/-! ### The finitary core: rate–distortion -/

section RD
variable {ι κ : Type}

theorem rd_term (p W q lam e : ℝ) (hp : 0 ≤ p) (hW : 0 ≤ W) (hq : p * W ≤ q) (hlam : 0 < lam) :
    (p * W) * Real.logb 2 (p * W / (p * lam * (2 : ℝ) ^ (-e) * q))
      = p * (W * Real.logb 2 (W / q)) - p * W * Real.logb 2 lam + e * (p * W) := by
  by_cases h1 : p = 0
  · simp [h1]
  by_cases h2 : W = 0
  · simp [h2]
  have hppos : 0 < p := lt_of_le_of_ne hp (Ne.symm h1)
  have hWpos : 0 < W := lt_of_le_of_ne hW (Ne.symm h2)
  have hqpos : 0 < q := lt_of_lt_of_le (mul_pos hppos hWpos) hq
  have h2pos : 0 < (2 : ℝ) ^ (-e) := Real.rpow_pos_of_pos (by norm_num) _
  have e1 : p * W / (p * lam * (2 : ℝ) ^ (-e) * q) = (W / q) / (lam * (2 : ℝ) ^ (-e)) := by
    field_simp
  rw [e1, Real.logb_div (div_ne_zero h2 hqpos.ne') (mul_ne_zero hlam.ne' h2pos.ne'),
    Real.logb_mul hlam.ne' h2pos.ne', Real.logb_rpow (by norm_num) (by norm_num)]
  ring

/-- Csiszár / Berger lower bound for the rate–distortion Lagrangian. -/
theorem rd_core (s : Finset ι) (t : Finset κ) (p : ι → ℝ) (W d : ι → κ → ℝ) (lam : ι → ℝ)
    (β : ℝ) (hp : ∀ x ∈ s, 0 ≤ p x) (hps : ∑ x ∈ s, p x = 1)
    (hW : ∀ x ∈ s, ∀ y ∈ t, 0 ≤ W x y) (hrow : ∀ x ∈ s, ∑ y ∈ t, W x y = 1)
    (hlam : ∀ x ∈ s, 0 < lam x)
    (hc : ∀ y ∈ t, ∑ x ∈ s, p x * lam x * (2 : ℝ) ^ (-(β * d x y)) ≤ 1) :
    ∑ x ∈ s, p x * Real.logb 2 (lam x)
      ≤ ∑ x ∈ s, p x * ∑ y ∈ t, W x y * Real.logb 2 (W x y / ∑ x' ∈ s, p x' * W x' y)
        + β * ∑ x ∈ s, ∑ y ∈ t, p x * W x y * d x y := by
  set q : κ → ℝ := fun y => ∑ x' ∈ s, p x' * W x' y with hqdef
  have hqnn : ∀ y ∈ t, 0 ≤ q y := fun y hy =>
    sum_nonneg (fun x hx => mul_nonneg (hp x hx) (hW x hx y hy))
  have hle : ∀ x ∈ s, ∀ y ∈ t, p x * W x y ≤ q y := fun x hx y hy =>
    single_le_sum (f := fun x' => p x' * W x' y)
      (fun x' hx' => mul_nonneg (hp x' hx') (hW x' hx' y hy)) hx
  have hqs : ∑ y ∈ t, q y = 1 := by rw [hqdef]; simp only; rw [sum_out s t p W hrow, hps]
  have h2pos : ∀ e : ℝ, 0 < (2 : ℝ) ^ e := fun e => Real.rpow_pos_of_pos (by norm_num) _
  have hg := Lemmas.InfoReal.gibbs (s ×ˢ t) (fun z => p z.1 * W z.1 z.2)
    (fun z => p z.1 * lam z.1 * (2 : ℝ) ^ (-(β * d z.1 z.2)) * q z.2)
    (fun z hz => by
      obtain ⟨h1, h2⟩ := mem_product.mp hz
      exact mul_nonneg (hp _ h1) (hW _ h1 _ h2))
    (fun z hz => by
      obtain ⟨h1, h2⟩ := mem_product.mp hz
      exact mul_nonneg (mul_nonneg (mul_nonneg (hp _ h1) (hlam _ h1).le) (h2pos _).le)
        (hqnn _ h2))
    (by
      rw [sum_product, sum_product, sum_comm]
      have e1 : ∑ x ∈ s, ∑ y ∈ t, p x * W x y = 1 := by
        rw [← hps]; apply sum_congr rfl; intro x hx; rw [← mul_sum, hrow x hx, mul_one]
      rw [e1, ← hqs]
      apply sum_le_sum
      intro y hy
      simp only
      rw [← sum_mul]
      calc (∑ x ∈ s, p x * lam x * (2 : ℝ) ^ (-(β * d x y))) * q y ≤ 1 * q y :=
            mul_le_mul_of_nonneg_right (hc y hy) (hqnn y hy)
        _ = q y := one_mul _)
    (fun z hz h0 => by
      obtain ⟨h1, h2⟩ := mem_product.mp hz
      have hne : p z.1 * lam z.1 * (2 : ℝ) ^ (-(β * d z.1 z.2)) * q z.2 = 0 := h0
      rcases mul_eq_zero.mp hne with h | h
      · rcases mul_eq_zero.mp h with h | h
        · rcases mul_eq_zero.mp h with h | h
          · simp [h]
          · exact absurd h (hlam _ h1).ne'
        · exact absurd h (h2pos _).ne'
      · have := hle _ h1 _ h2
        have h3 := mul_nonneg (hp _ h1) (hW _ h1 _ h2)
        rw [h] at this
        exact le_antisymm this h3)
  have e : ∑ z ∈ s ×ˢ t, (fun z => p z.1 * W z.1 z.2) z *
        Real.logb 2 ((fun z => p z.1 * W z.1 z.2) z /
          (fun z => p z.1 * lam z.1 * (2 : ℝ) ^ (-(β * d z.1 z.2)) * q z.2) z)
      = ∑ x ∈ s, ∑ y ∈ t, (p x * (W x y * Real.logb 2 (W x y / q y))
          - p x * W x y * Real.logb 2 (lam x) + (β * d x y) * (p x * W x y)) := by
    rw [sum_product]
    apply sum_congr rfl; intro x hx
    apply sum_congr rfl; intro y hy
    exact rd_term _ _ _ _ _ (hp x hx) (hW x hx y hy) (hle x hx y hy) (hlam x hx)
  rw [e] at hg
  simp only [sum_add_distrib, sum_sub_distrib] at hg
  have e2 : ∑ x ∈ s, ∑ y ∈ t, p x * W x y * Real.logb 2 (lam x)
      = ∑ x ∈ s, p x * Real.logb 2 (lam x) := by
    apply sum_congr rfl; intro x hx
    rw [← sum_mul, ← mul_sum, hrow x hx, mul_one]
  have e3 : ∑ x ∈ s, ∑ y ∈ t, β * d x y * (p x * W x y)
      = β * ∑ x ∈ s, ∑ y ∈ t, p x * W x y * d x y := by
    simp only [mul_sum]
    apply sum_congr rfl; intro x _
    apply sum_congr rfl; intro y _
    ring
  have e4 : ∑ x ∈ s, ∑ y ∈ t, p x * (W x y * Real.logb 2 (W x y / q y))
      = ∑ x ∈ s, p x * ∑ y ∈ t, W x y * Real.logb 2 (W x y / q y) := by
    simp only [mul_sum]
  rw [e2, e3, e4] at hg
  linarith

end RD

/-! ### List-level consequences: capacity -/

section ListCap

theorem isLaw_of_vec (q : List ℝ) (m : ℕ) (hl : q.length = m) (hnn : ∀ y < m, 0 ≤ vec q y)
    (hs : ∑ y ∈ range m, vec q y = 1) : IsLaw q m := by
  refine ⟨hl, ?_, ?_⟩
  · intro a ha
    obtain ⟨i, hi, rfl⟩ := List.mem_iff_getElem.mp ha
    have := hnn i (by omega)
    simpa [vec, List.getD_eq_getElem?_getD, List.getElem?_eq_getElem hi] using this
  · have := sum_map_range (fun a => a) 0 q m hl
    rw [List.map_id'] at this
    rw [this]; exact hs

theorem outputLaw_isLaw (r : List ℝ) (P : List (List ℝ)) (n m : ℕ) (hr : IsLaw r n)
    (hP : IsChannel P n m) : IsLaw (outputLaw r P) m := by
  apply isLaw_of_vec _ _ (outputLaw_length r P n m hP.isMat hr.pos_len)
  · intro y _
    rw [vec_outputLaw r P n m hr.len hP.isMat]
    exact sum_nonneg (fun x _ => mul_nonneg (hr.vec_nonneg x) (hP.ent_nonneg x y))
  · simp only [vec_outputLaw r P n m hr.len hP.isMat]
    rw [sum_out (range n) (range m) (vec r) (ent P) (fun x hx => hP.sum_ent (mem_range.mp hx))]
    exact hr.sum_vec

/-- `channelMI` is the `r`-weighted mean of the list of row divergences against `rP`. -/
theorem channelMI_eq_rows (r : List ℝ) (P : List (List ℝ)) (n m : ℕ) (hr : r.length = n)
    (hP : IsMat P n m) :
    channelMI (Real.logb 2) r P = ∑ x ∈ range n, vec r x *
      (P.map (fun px => klRow (Real.logb 2) px (outputLaw r P))).getD x 0 := by
  rw [channelMI_eq r P n m hr hP]
  apply sum_congr rfl
  intro x hx
  have hx' : x < n := mem_range.mp hx
  rw [klRows_getD P _ n m hP (outputLaw_length r P n m hP (by omega)) x hx']

theorem mean_le_lmaxOf (r : List ℝ) (l : List ℝ) (n : ℕ) (hr : IsLaw r n) (hl : l.length = n) :
    ∑ x ∈ range n, vec r x * l.getD x 0 ≤ lmaxOf l :=
  mean_le (range n) (vec r) (fun x => l.getD x 0) _ (fun x _ => hr.vec_nonneg x) hr.sum_vec
    (fun x hx => getD_le_lmaxOf l x (by rw [hl]; exact mem_range.mp hx))

/-- `I(r';P) ≤ Σ_x r'_x D(P_x‖q')`, list form. -/
theorem channelMI_le_cross (P : List (List ℝ)) (n m : ℕ) (hP : IsChannel P n m)
    (q' : List ℝ) (hq' : IsLaw q' m)
    (hdom : ∀ x < n, ∀ y < m, vec q' y = 0 → ent P x y = 0)
    (r' : List ℝ) (hr' : IsLaw r' n) :
    channelMI (Real.logb 2) r' P ≤ ∑ x ∈ range n, vec r' x *
      (P.map (fun px => klRow (Real.logb 2) px q')).getD x 0 := by
  rw [channelMI_eq r' P n m hr'.len hP.isMat]
  simp only [vec_outputLaw r' P n m hr'.len hP.isMat]
  have h := mi_le_cross (range n) (range m) (vec r') (ent P) (vec q')
    (fun x _ => hr'.vec_nonneg x) (fun x _ y _ => hP.ent_nonneg x y)
    (fun y _ => hq'.vec_nonneg y)
    (by
      rw [sum_out (range n) (range m) (vec r') (ent P)
        (fun x hx => hP.sum_ent (mem_range.mp hx)), hr'.sum_vec, hq'.sum_vec])
    (fun x hx _ y hy => hdom x (mem_range.mp hx) y (mem_range.mp hy))
  refine le_trans h (le_of_eq ?_)
  apply sum_congr rfl
  intro x hx
  rw [klRows_getD P q' n m hP.isMat hq'.len x (mem_range.mp hx)]

end ListCap

/-! ### Joint matrices, marginals, distortion -/

section Joint

theorem vec_rowSums (Q : List (List ℝ)) (n m : ℕ) (hQ : IsMat Q n m) (x : ℕ) (hx : x < n) :
    vec (rowSums Q) x = ∑ y ∈ range m, ent Q x y := by
  have hx' : x < Q.length := by rw [hQ.len]; exact hx
  unfold rowSums vec
  rw [List.getD_eq_getElem?_getD, List.getElem?_map, List.getElem?_eq_getElem hx']
  simp only [Option.map_some, Option.getD_some]
  have := sum_map_range (fun a => a) 0 Q[x] m (hQ.row _ (List.getElem_mem hx'))
  rw [List.map_id'] at this
  rw [lsum_eq_sum, this]
  simp [ent, vec, List.getD_eq_getElem?_getD, List.getElem?_eq_getElem hx']

theorem colSums_length (Q : List (List ℝ)) (n m : ℕ) (hQ : IsMat Q n m) (hn : 0 < n) :
    (colSums Q).length = m := by
  cases Q with
  | nil => have := hQ.len; simp at this; omega
  | cons row Q' => simp [colSums, hQ.row row List.mem_cons_self]

theorem vec_colSums (Q : List (List ℝ)) (n m : ℕ) (hQ : IsMat Q n m) (y : ℕ) (hy : y < m) :
    vec (colSums Q) y = ∑ x ∈ range n, ent Q x y := by
  cases Q with
  | nil => have := hQ.len; simp at this; subst this; simp [colSums, vec]
  | cons row Q' =>
    have hrow : row.length = m := hQ.row row List.mem_cons_self
    have e : colSums (row :: Q') = (List.range row.length).map (fun y =>
        lsum ((row :: Q').map (fun r => r.getD y 0))) := rfl
    rw [e, hrow, vec_range_map m _ y hy, lsum_eq_sum, sum_map_range _ [] _ n hQ.len]
    rfl

theorem jointMI_eq (Q : List (List ℝ)) (n m : ℕ) (hQ : IsMat Q n m) :
    jointMI (Real.logb 2) Q = ∑ x ∈ range n, ∑ y ∈ range m,
      ent Q x y * Real.logb 2 (ent Q x y / (vec (rowSums Q) x * vec (colSums Q) y)) := by
  unfold jointMI
  simp only
  rw [lsum_eq_sum, sum_zipWith_range _ [] 0 Q (rowSums Q) n hQ.len (by simp [rowSums, hQ.len])]
  apply sum_congr rfl
  intro x hx
  have hx' : x < n := mem_range.mp hx
  rw [lsum_eq_sum, sum_zipWith_range _ 0 0 _ _ m (hQ.row_len hx')
    (colSums_length Q n m hQ (by omega))]
  exact sum_congr rfl (fun y _ => guard _ _ _)

theorem expDistortion_eq (Q d : List (List ℝ)) (n m : ℕ) (hQ : IsMat Q n m) (hd : IsMat d n m) :
    expDistortion Q d = ∑ x ∈ range n, ∑ y ∈ range m, ent Q x y * ent d x y := by
  unfold expDistortion
  rw [lsum_eq_sum, sum_zipWith_range _ [] [] Q d n hQ.len hd.len]
  apply sum_congr rfl
  intro x hx
  have hx' : x < n := mem_range.mp hx
  rw [lsum_eq_sum, sum_zipWith_range _ 0 0 _ _ m (hQ.row_len hx') (hd.row_len hx')]
  rfl

/-- The joint matrix `Q_xy = p_x W_xy` of a source and a test channel. -/
def jointOf (p : List ℝ) (W : List (List ℝ)) : List (List ℝ) :=
  List.zipWith (fun px row => row.map (px * ·)) p W

theorem jointOf_isMat (p : List ℝ) (W : List (List ℝ)) (n m : ℕ) (hp : p.length = n)
    (hW : IsMat W n m) : IsMat (jointOf p W) n m := by
  refine ⟨by simp [jointOf, hp, hW.len], ?_⟩
  intro row hrow
  obtain ⟨i, hi, rfl⟩ := List.mem_iff_getElem.mp hrow
  simp only [jointOf, List.getElem_zipWith, List.length_map]
  exact hW.row _ (List.getElem_mem _)

theorem ent_jointOf (p : List ℝ) (W : List (List ℝ)) (n m : ℕ) (hp : p.length = n)
    (hW : IsMat W n m) (x y : ℕ) (hx : x < n) (hy : y < m) :
    ent (jointOf p W) x y = vec p x * ent W x y := by
  have hxp : x < p.length := by omega
  have hxW : x < W.length := by rw [hW.len]; exact hx
  have hyW : y < W[x].length := by rw [hW.row _ (List.getElem_mem hxW)]; exact hy
  simp [ent, vec, jointOf, List.getD_eq_getElem?_getD, hxp, hxW, hyW]

end Joint

/-! ### `jointMI` of `Q_xy = p_x W_xy` is `channelMI p W`; the rate–distortion bound on lists -/

section RDList

theorem row_sum_ent (W : List (List ℝ)) (n m : ℕ) (hW : IsMat W n m)
    (hs : ∀ row ∈ W, row.sum = 1) (x : ℕ) (hx : x < n) : ∑ y ∈ range m, ent W x y = 1 := by
  have hmem : W.getD x [] ∈ W := getD_mem W [] x (by rw [hW.len]; exact hx)
  have := sum_map_range (fun a => a) 0 (W.getD x []) m (hW.row _ hmem)
  rw [List.map_id', hs _ hmem] at this
  exact this.symm

theorem jointMI_eq_channelMI (p : List ℝ) (W Q : List (List ℝ)) (n m : ℕ) (hp : p.length = n)
    (hW : IsMat W n m) (hWs : ∀ row ∈ W, row.sum = 1) (hQ : IsMat Q n m)
    (hQe : ∀ x < n, ∀ y < m, ent Q x y = vec p x * ent W x y) :
    jointMI (Real.logb 2) Q = channelMI (Real.logb 2) p W := by
  rw [jointMI_eq Q n m hQ, channelMI_eq p W n m hp hW]
  apply sum_congr rfl
  intro x hx
  have hx' : x < n := mem_range.mp hx
  rw [mul_sum]
  apply sum_congr rfl
  intro y hy
  have hy' : y < m := mem_range.mp hy
  have hrow : ∑ y' ∈ range m, ent Q x y' = vec p x := by
    rw [sum_congr rfl (fun y' hy' => hQe x hx' y' (mem_range.mp hy')), ← mul_sum,
      row_sum_ent W n m hW hWs x hx', mul_one]
  have hcol : ∑ x' ∈ range n, ent Q x' y = ∑ x' ∈ range n, vec p x' * ent W x' y :=
    sum_congr rfl (fun x' hx'' => hQe x' (mem_range.mp hx'') y hy')
  rw [vec_rowSums Q n m hQ x hx', vec_colSums Q n m hQ y hy', vec_outputLaw p W n m hp hW,
    hrow, hcol, hQe x hx' y hy']
  by_cases h : vec p x = 0
  · simp [h]
  · rw [mul_div_mul_left _ _ h, mul_assoc]

theorem rowSums_eq (p : List ℝ) (W Q : List (List ℝ)) (n m : ℕ) (hp : p.length = n)
    (hW : IsMat W n m) (hWs : ∀ row ∈ W, row.sum = 1) (hQ : IsMat Q n m)
    (hQe : ∀ x < n, ∀ y < m, ent Q x y = vec p x * ent W x y) : rowSums Q = p := by
  apply List.ext_getElem
  · simp [rowSums, hQ.len, hp]
  · intro x h1 h2
    have hx : x < n := by omega
    have e1 := vec_rowSums Q n m hQ x hx
    rw [sum_congr rfl (fun y' hy' => hQe x hx y' (mem_range.mp hy')), ← mul_sum,
      row_sum_ent W n m hW hWs x hx, mul_one] at e1
    simpa [vec, List.getD_eq_getElem?_getD, List.getElem?_eq_getElem h1,
      List.getElem?_eq_getElem h2] using e1

theorem colSums_getD (p : List ℝ) (W Q : List (List ℝ)) (n m : ℕ) (hp : p.length = n)
    (hW : IsMat W n m) (hQ : IsMat Q n m)
    (hQe : ∀ x < n, ∀ y < m, ent Q x y = vec p x * ent W x y) (y : ℕ) (hy : y < m) :
    vec (colSums Q) y = vec (outputLaw p W) y := by
  rw [vec_colSums Q n m hQ y hy, vec_outputLaw p W n m hp hW]
  exact sum_congr rfl (fun x' hx'' => hQe x' (mem_range.mp hx'') y hy)

/-- The Csiszár / Berger bound in terms of the Core quantities, multipliers as a function. -/
theorem rd_dual_fn (p : List ℝ) (W d Q : List (List ℝ)) (lam : ℕ → ℝ) (β : ℝ) (n m : ℕ)
    (hp : IsLaw p n) (hW : IsChannel W n m) (hd : IsMat d n m) (hQ : IsMat Q n m)
    (hQe : ∀ x < n, ∀ y < m, ent Q x y = vec p x * ent W x y)
    (hlam : ∀ x < n, 0 < lam x)
    (hc : ∀ y < m, ∑ x ∈ range n, vec p x * lam x * (2 : ℝ) ^ (-(β * ent d x y)) ≤ 1) :
    ∑ x ∈ range n, vec p x * Real.logb 2 (lam x)
      ≤ jointMI (Real.logb 2) Q + β * expDistortion Q d := by
  have hWs : ∀ row ∈ W, row.sum = 1 := fun row hr => (hW.row row hr).sum_one
  rw [jointMI_eq_channelMI p W Q n m hp.len hW.isMat hWs hQ hQe,
    channelMI_eq p W n m hp.len hW.isMat, expDistortion_eq Q d n m hQ hd]
  simp only [vec_outputLaw p W n m hp.len hW.isMat]
  have h := rd_core (range n) (range m) (vec p) (ent W) (ent d) lam β
    (fun x _ => hp.vec_nonneg x) hp.sum_vec (fun x _ y _ => hW.ent_nonneg x y)
    (fun x hx => hW.sum_ent (mem_range.mp hx)) (fun x hx => hlam x (mem_range.mp hx))
    (fun y hy => hc y (mem_range.mp hy))
  refine le_trans h (le_of_eq ?_)
  congr 2
  apply sum_congr rfl; intro x hx
  apply sum_congr rfl; intro y hy
  rw [hQe x (mem_range.mp hx) y (mem_range.mp hy)]

/-- The multiplier used by `rdLowerBound`: `λ_x = 1 / Σ_y q_y 2^{−β d_xy}`. -/
noncomputable def lamOf (β : ℝ) (q : List ℝ) (d : List (List ℝ)) (m x : ℕ) : ℝ :=
  1 / ∑ y ∈ range m, vec q y * (2 : ℝ) ^ (-(β * ent d x y))

/-- The column constraint values `c_y = Σ_x p_x λ_x 2^{−β d_xy}`. -/
noncomputable def cOf (β : ℝ) (p q : List ℝ) (d : List (List ℝ)) (n m y : ℕ) : ℝ :=
  ∑ x ∈ range n, vec p x * lamOf β q d m x * (2 : ℝ) ^ (-(β * ent d x y))

theorem rdLowerBound_eq (β : ℝ) (p q : List ℝ) (d : List (List ℝ)) (n m : ℕ)
    (hp : p.length = n) (hq : q.length = m) (hd : IsMat d n m) :
    rdLowerBound (Real.logb 2) (fun x => (2 : ℝ) ^ x) β p q d
      = ∑ x ∈ range n, vec p x * Real.logb 2 (lamOf β q d m x)
        - Real.logb 2 (lmaxOf ((List.range m).map (cOf β p q d n m))) := by
  unfold rdLowerBound
  simp only
  set L : List ℝ := d.map (fun dr => 1 / lsum (List.zipWith
    (fun qy dxy => qy * (2 : ℝ) ^ (-(β * dxy))) q dr)) with hL
  have hLlen : L.length = n := by simp [hL, hd.len]
  have hLx : ∀ x < n, L.getD x 0 = lamOf β q d m x := by
    intro x hx
    have hx' : x < d.length := by rw [hd.len]; exact hx
    rw [hL, List.getD_eq_getElem?_getD, List.getElem?_map, List.getElem?_eq_getElem hx']
    simp only [Option.map_some, Option.getD_some]
    rw [lsum_eq_sum, sum_zipWith_range _ 0 0 q d[x] m hq (hd.row _ (List.getElem_mem hx'))]
    simp [lamOf, ent, vec, List.getD_eq_getElem?_getD, List.getElem?_eq_getElem hx']
  congr 1
  · rw [lsum_eq_sum, sum_zipWith_range _ 0 0 p L n hp hLlen]
    apply sum_congr rfl
    intro x hx
    rw [guard, hLx x (mem_range.mp hx)]; rfl
  · congr 2
    rw [hq]
    apply List.map_congr_left
    intro y _
    rw [lsum_eq_sum, sum_zipWith_range _ 0 (0, []) p (L.zip d) n hp (by simp [hLlen, hd.len])]
    apply sum_congr rfl
    intro x hx
    have hx' : x < n := mem_range.mp hx
    have hz : (L.zip d).getD x (0, []) = (L.getD x 0, d.getD x []) := by
      have h1 : x < L.length := by omega
      have h2 : x < d.length := by rw [hd.len]; exact hx'
      simp [List.getD_eq_getElem?_getD, h1, h2]
    rw [hz, hLx x hx']
    rfl

theorem weighted_pos (n : ℕ) (p a : ℕ → ℝ) (hp : ∀ x ∈ range n, 0 ≤ p x)
    (hs : ∑ x ∈ range n, p x = 1) (ha : ∀ x ∈ range n, 0 < a x) :
    0 < ∑ x ∈ range n, p x * a x := by
  apply sum_pos' (fun x hx => mul_nonneg (hp x hx) (ha x hx).le)
  by_contra hne
  push Not at hne
  have h0 : ∀ x ∈ range n, p x = 0 := by
    intro x hx
    have h1 := hne x hx
    have h2 := hp x hx
    by_contra h3
    have : 0 < p x * a x := mul_pos (lt_of_le_of_ne h2 (Ne.symm h3)) (ha x hx)
    linarith
  rw [sum_eq_zero h0] at hs
  exact zero_ne_one hs

/-- The model's normalised certificate is a lower bound for every test channel. -/
theorem rd_certificate (p q : List ℝ) (W d Q : List (List ℝ)) (β : ℝ) (n m : ℕ)
    (hp : IsLaw p n) (hW : IsChannel W n m) (hd : IsMat d n m) (hQ : IsMat Q n m)
    (hQe : ∀ x < n, ∀ y < m, ent Q x y = vec p x * ent W x y)
    (hq : q.length = m) (hqpos : ∀ a ∈ q, 0 < a) :
    rdLowerBound (Real.logb 2) (fun x => (2 : ℝ) ^ x) β p q d
      ≤ jointMI (Real.logb 2) Q + β * expDistortion Q d := by
  rw [rdLowerBound_eq β p q d n m hp.len hq hd]
  have hn : 0 < n := hp.pos_len
  have hm : 0 < m := (hW.row_law hn).pos_len
  have h2pos : ∀ e : ℝ, 0 < (2 : ℝ) ^ e := fun e => Real.rpow_pos_of_pos (by norm_num) _
  have hqv : ∀ y < m, 0 < vec q y := fun y hy => hqpos _ (getD_mem q 0 y (by omega))
  have hlam : ∀ x, 0 < lamOf β q d m x := by
    intro x
    unfold lamOf
    apply one_div_pos.mpr
    apply sum_pos (fun y hy => mul_pos (hqv y (mem_range.mp hy)) (h2pos _))
    exact ⟨0, mem_range.mpr hm⟩
  set c : List ℝ := (List.range m).map (cOf β p q d n m) with hc
  have hclen : c.length = m := by simp [hc]
  have hcy : ∀ y < m, cOf β p q d n m y ≤ lmaxOf c := by
    intro y hy
    have := getD_le_lmaxOf c y (by omega)
    have e : c.getD y 0 = cOf β p q d n m y := vec_range_map m _ y hy
    rwa [e] at this
  have hc0 : 0 < cOf β p q d n m 0 := by
    unfold cOf
    simp only [mul_assoc]
    exact weighted_pos n (vec p) _ (fun x _ => hp.vec_nonneg x) hp.sum_vec
      (fun x _ => mul_pos (hlam x) (h2pos _))
  have hM : 0 < lmaxOf c := lt_of_lt_of_le hc0 (hcy 0 hm)
  have h := rd_dual_fn p W d Q (fun x => lamOf β q d m x / lmaxOf c) β n m hp hW hd hQ hQe
    (fun x _ => div_pos (hlam x) hM)
    (fun y hy => by
      have e : ∑ x ∈ range n, vec p x * (lamOf β q d m x / lmaxOf c) *
          (2 : ℝ) ^ (-(β * ent d x y)) = cOf β p q d n m y / lmaxOf c := by
        unfold cOf
        rw [sum_div]
        apply sum_congr rfl; intro x _
        ring
      rw [e]
      exact (div_le_one hM).mpr (hcy y hy))
  refine le_trans (le_of_eq ?_) h
  have e : ∀ x ∈ range n, vec p x * Real.logb 2 (lamOf β q d m x / lmaxOf c)
      = vec p x * Real.logb 2 (lamOf β q d m x) - vec p x * Real.logb 2 (lmaxOf c) := by
    intro x _
    rw [Real.logb_div (hlam x).ne' hM.ne']; ring
  rw [sum_congr rfl e, sum_sub_distrib, ← sum_mul, hp.sum_vec, one_mul]

end RDList

/-! ### One Blahut–Arimoto step -/

section BA

theorem zipWith_pos {β γ : Type} (f : β → γ → ℝ) (hf : ∀ a b, 0 < f a b) (l1 : List β)
    (l2 : List γ) : ∀ a ∈ List.zipWith f l1 l2, 0 < a := by
  induction l1 generalizing l2 with
  | nil => simp
  | cons a l1 ih =>
    cases l2 with
    | nil => simp
    | cons b l2 =>
      intro c hc
      rw [List.zipWith_cons_cons] at hc
      rcases List.mem_cons.mp hc with rfl | hc
      · exact hf a b
      · exact ih l2 c hc

theorem sum_map_div (l : List ℝ) (c : ℝ) : (l.map (· / c)).sum = l.sum / c := by
  induction l with
  | nil => simp
  | cons a l ih => rw [List.map_cons, List.sum_cons, List.sum_cons, ih, add_div]

end BA

/-! ### Closed forms: concrete channels -/

section Closed

/-- Row divergences from the entrywise formula. -/
theorem klRow_of_ent (P : List (List ℝ)) (q : List ℝ) (n m : ℕ) (hP : IsMat P n m)
    (hq : q.length = m) (C : ℝ)
    (h : ∀ x < n, ∑ y ∈ range m, ent P x y * Real.logb 2 (ent P x y / vec q y) = C) :
    ∀ px ∈ P, klRow (Real.logb 2) px q = C := by
  intro px hpx
  obtain ⟨i, hi, rfl⟩ := List.mem_iff_getElem.mp hpx
  have hi' : i < n := by rw [← hP.len]; exact hi
  have := klRows_getD P q n m hP hq i hi'
  rw [h i hi'] at this
  simpa [List.getD_eq_getElem?_getD, hi] using this

theorem half_law : IsLaw [(1 : ℝ) / 2, 1 / 2] 2 :=
  ⟨rfl, by intro a ha; simp at ha; rw [ha]; norm_num, by norm_num⟩

theorem term_half (a : ℝ) : a * Real.logb 2 (a / (1 / 2)) = a * Real.logb 2 a + a := by
  by_cases h : a = 0
  · simp [h]
  · rw [Real.logb_div h (by norm_num), one_div, Real.logb_inv,
      Real.logb_self_eq_one (by norm_num)]
    ring

theorem term_self (a : ℝ) : a * Real.logb 2 (a / a) = 0 := by
  by_cases h : a = 0
  · simp [h]
  · rw [div_self h, Real.logb_one, mul_zero]

theorem term_double (a : ℝ) : a * Real.logb 2 (a / (a / 2)) = a := by
  by_cases h : a = 0
  · simp [h]
  · have : a / (a / 2) = 2 := by field_simp
    rw [this, Real.logb_self_eq_one (by norm_num), mul_one]

/-! Binary symmetric channel. -/

/-- The binary symmetric channel with crossover probability `e`. -/
def bsc (e : ℝ) : List (List ℝ) := [[1 - e, e], [e, 1 - e]]

theorem bsc_isChannel (e : ℝ) (h0 : 0 ≤ e) (h1 : e ≤ 1) : IsChannel (bsc e) 2 2 := by
  refine ⟨rfl, ?_⟩
  intro row hrow
  simp [bsc] at hrow
  rcases hrow with rfl | rfl
  · refine ⟨rfl, ?_, by simp⟩
    intro a ha; simp at ha; rcases ha with rfl | rfl <;> linarith
  · refine ⟨rfl, ?_, by simp⟩
    intro a ha; simp at ha; rcases ha with rfl | rfl <;> linarith

theorem bsc_out (e : ℝ) : outputLaw [(1 : ℝ) / 2, 1 / 2] (bsc e) = [1 / 2, 1 / 2] := by
  simp [bsc, outputLaw, lsum, List.range_succ]
  constructor <;> ring

theorem klRow_half (a b : ℝ) : klRow (Real.logb 2) [a, b] [1 / 2, 1 / 2]
    = a * Real.logb 2 a + b * Real.logb 2 b + (a + b) := by
  simp only [klRow, lsum, List.zipWith_cons_cons, List.zipWith_nil_right, List.foldl_cons,
    List.foldl_nil, guard]
  rw [term_half, term_half]; ring

theorem entropy_two (a b : ℝ) :
    entropyVals (Real.logb 2) [a, b] = -(a * Real.logb 2 a + b * Real.logb 2 b) := by
  simp only [entropyVals, plogp, lsum, List.map_cons, List.map_nil, List.foldl_cons,
    List.foldl_nil, guard]
  ring

theorem bsc_rows (e : ℝ) : ∀ px ∈ bsc e, klRow (Real.logb 2) px
    (outputLaw [(1 : ℝ) / 2, 1 / 2] (bsc e)) = 1 - entropyVals (Real.logb 2) [e, 1 - e] := by
  intro px hpx
  rw [bsc_out, entropy_two]
  simp [bsc] at hpx
  rcases hpx with rfl | rfl
  · rw [klRow_half]; ring
  · rw [klRow_half]; ring

/-! Binary erasure channel. -/

/-- The binary erasure channel with erasure probability `ε` (outputs `0, erased, 1`). -/
def bec (ε : ℝ) : List (List ℝ) := [[1 - ε, ε, 0], [0, ε, 1 - ε]]

theorem bec_isChannel (ε : ℝ) (h0 : 0 ≤ ε) (h1 : ε ≤ 1) : IsChannel (bec ε) 2 3 := by
  refine ⟨rfl, ?_⟩
  intro row hrow
  simp [bec] at hrow
  rcases hrow with rfl | rfl
  · refine ⟨rfl, ?_, by simp⟩
    intro a ha; simp at ha; rcases ha with rfl | rfl | rfl <;> linarith
  · refine ⟨rfl, ?_, by simp⟩
    intro a ha; simp at ha; rcases ha with rfl | rfl | rfl <;> linarith

theorem bec_out (ε : ℝ) :
    outputLaw [(1 : ℝ) / 2, 1 / 2] (bec ε) = [(1 - ε) / 2, ε, (1 - ε) / 2] := by
  simp [bec, outputLaw, lsum, List.range_succ]
  refine ⟨by ring, by ring, by ring⟩

theorem bec_rows (ε : ℝ) : ∀ px ∈ bec ε, klRow (Real.logb 2) px
    (outputLaw [(1 : ℝ) / 2, 1 / 2] (bec ε)) = 1 - ε := by
  intro px hpx
  rw [bec_out]
  simp [bec] at hpx
  rcases hpx with rfl | rfl
  · simp only [klRow, lsum, List.zipWith_cons_cons, List.zipWith_nil_right, List.foldl_cons,
      List.foldl_nil, guard]
    rw [term_double, term_self]; ring
  · simp only [klRow, lsum, List.zipWith_cons_cons, List.zipWith_nil_right, List.foldl_cons,
      List.foldl_nil, guard]
    rw [term_double, term_self]; ring

theorem bec_dom (ε : ℝ) : ∀ x < 2, ∀ y < 3,
    vec (outputLaw [(1 : ℝ) / 2, 1 / 2] (bec ε)) y = 0 → ent (bec ε) x y = 0 := by
  intro x hx y hy
  rw [bec_out]
  interval_cases x <;> interval_cases y <;> simp [vec, ent, bec]

/-! Noiseless channel. -/

/-- The identity (noiseless) channel on `n` letters. -/
def identityChannel (n : ℕ) : List (List ℝ) :=
  (List.range n).map (fun i => (List.range n).map (fun j => if i = j then (1 : ℝ) else 0))

/-- The uniform law on `n` letters. -/
noncomputable def uniformLaw (n : ℕ) : List ℝ := List.replicate n (1 / (n : ℝ))

theorem uniformLaw_isLaw (n : ℕ) (hn : 0 < n) : IsLaw (uniformLaw n) n := by
  refine ⟨by simp [uniformLaw], ?_, ?_⟩
  · intro a ha
    rw [uniformLaw, List.mem_replicate] at ha
    rw [ha.2]; positivity
  · have : (n : ℝ) ≠ 0 := by positivity
    simp [uniformLaw, List.sum_replicate, this]

theorem vec_uniformLaw (n x : ℕ) (hx : x < n) : vec (uniformLaw n) x = 1 / (n : ℝ) := by
  simp [vec, uniformLaw, List.getD_eq_getElem?_getD, hx]

theorem identity_getD (n x : ℕ) (hx : x < n) :
    (identityChannel n).getD x []
      = (List.range n).map (fun j => if x = j then (1 : ℝ) else 0) := by
  simp [identityChannel, List.getD_eq_getElem?_getD, hx]

theorem ent_identity (n x y : ℕ) (hx : x < n) (hy : y < n) :
    ent (identityChannel n) x y = if x = y then 1 else 0 := by
  unfold ent
  rw [identity_getD n x hx, vec_range_map n _ y hy]

theorem identity_isChannel (n : ℕ) : IsChannel (identityChannel n) n n := by
  refine ⟨by simp [identityChannel], ?_⟩
  intro row hrow
  obtain ⟨i, hi, rfl⟩ := List.mem_map.mp hrow
  have hi' : i < n := List.mem_range.mp hi
  apply isLaw_of_vec _ _ (by simp)
  · intro y hy
    rw [vec_range_map n _ y hy]; split <;> norm_num
  · rw [sum_congr rfl (fun y hy => vec_range_map n _ y (mem_range.mp hy))]
    rw [sum_ite_eq]; simp [hi']

theorem vec_out_identity (n y : ℕ) (hn : 0 < n) (hy : y < n) :
    vec (outputLaw (uniformLaw n) (identityChannel n)) y = 1 / (n : ℝ) := by
  rw [vec_outputLaw _ _ n n (uniformLaw_isLaw n hn).len (identity_isChannel n).isMat]
  have : ∀ x ∈ range n, vec (uniformLaw n) x * ent (identityChannel n) x y
      = if x = y then 1 / (n : ℝ) else 0 := by
    intro x hx
    rw [vec_uniformLaw n x (mem_range.mp hx), ent_identity n x y (mem_range.mp hx) hy]
    split <;> simp
  rw [sum_congr rfl this, sum_ite_eq']; simp [hy]

theorem noiseless_rows (n : ℕ) (hn : 0 < n) :
    ∀ px ∈ identityChannel n, klRow (Real.logb 2) px
      (outputLaw (uniformLaw n) (identityChannel n)) = Real.logb 2 n := by
  apply klRow_of_ent _ _ n n (identity_isChannel n).isMat
    (outputLaw_length _ _ n n (identity_isChannel n).isMat hn)
  intro x hx
  have : ∀ y ∈ range n, ent (identityChannel n) x y * Real.logb 2
      (ent (identityChannel n) x y / vec (outputLaw (uniformLaw n) (identityChannel n)) y)
      = if x = y then Real.logb 2 n else 0 := by
    intro y hy
    rw [ent_identity n x y hx (mem_range.mp hy), vec_out_identity n y hn (mem_range.mp hy)]
    split
    · simp
    · simp
  rw [sum_congr rfl this, sum_ite_eq]; simp [hx]

theorem noiseless_dom (n : ℕ) (hn : 0 < n) : ∀ x < n, ∀ y < n,
    vec (outputLaw (uniformLaw n) (identityChannel n)) y = 0
      → ent (identityChannel n) x y = 0 := by
  intro x _ y hy h
  rw [vec_out_identity n y hn hy] at h
  have : (0 : ℝ) < 1 / (n : ℝ) := by positivity
  linarith

/-! Useless channel: all rows equal. -/

theorem useless_mi (r : List ℝ) (P : List (List ℝ)) (p0 : List ℝ) (n m : ℕ) (hr : IsLaw r n)
    (hP : IsMat P n m) (hrows : ∀ row ∈ P, row = p0) : channelMI (Real.logb 2) r P = 0 := by
  have hent : ∀ x < n, ∀ y, ent P x y = vec p0 y := by
    intro x hx y
    unfold ent
    rw [hrows _ (getD_mem P [] x (by rw [hP.len]; exact hx))]
  have hout : ∀ y, vec (outputLaw r P) y = vec p0 y := by
    intro y
    rw [vec_outputLaw r P n m hr.len hP,
      sum_congr rfl (fun x hx => by rw [hent x (mem_range.mp hx) y]), ← sum_mul, hr.sum_vec,
      one_mul]
  rw [channelMI_eq r P n m hr.len hP]
  apply sum_eq_zero
  intro x hx
  have : ∑ y ∈ range m, ent P x y * Real.logb 2 (ent P x y / vec (outputLaw r P) y) = 0 := by
    apply sum_eq_zero
    intro y _
    rw [hout y, hent x (mem_range.mp hx) y, term_self]
  rw [this, mul_zero]

end Closed

/-! ### Bernoulli source under Hamming distortion -/

section Bernoulli

theorem joint_term (py z px : ℝ) (hz : z ≠ 0) (hpx : px ≠ 0) :
    (py * z) * Real.logb 2 (py * z / (px * py)) = py * z * (Real.logb 2 z - Real.logb 2 px) := by
  by_cases h : py = 0
  · simp [h]
  · have : py * z / (px * py) = z / px := by field_simp
    rw [this, Real.logb_div hz hpx]

theorem guard' (a c : ℝ) : (if a = 0 then 0 else a * c) = a * c := by
  by_cases h : a = 0 <;> simp [h]

theorem jointMI_two (a b c d : ℝ) :
    jointMI (Real.logb 2) [[a, b], [c, d]]
      = a * Real.logb 2 (a / ((a + b) * (a + c))) + b * Real.logb 2 (b / ((a + b) * (b + d)))
        + (c * Real.logb 2 (c / ((c + d) * (a + c))) + d * Real.logb 2 (d / ((c + d) * (b + d)))) := by
  simp [jointMI, rowSums, colSums, lsum, List.range_succ, guard']

theorem expDistortion_two (a b c d : ℝ) :
    expDistortion [[a, b], [c, d]] (hammingMatrix 2) = b + c := by
  simp [expDistortion, hammingMatrix, lsum, List.range_succ]

theorem bern_ach (a b D px0 px1 : ℝ) (hab : a + b = 1) (hD0 : 0 < D) (hD1 : D < 1)
    (h0 : a * (1 - D) + b * D = px0) (h1 : a * D + b * (1 - D) = px1) (hx0 : px0 ≠ 0) (hx1 : px1 ≠ 0) :
    jointMI (Real.logb 2) [[a * (1 - D), b * D], [a * D, b * (1 - D)]]
      = entropyVals (Real.logb 2) [px1, px0] - entropyVals (Real.logb 2) [D, 1 - D] := by
  rw [jointMI_two, entropy_two, entropy_two]
  have e1 : a * (1 - D) + a * D = a := by ring
  have e2 : b * D + b * (1 - D) = b := by ring
  rw [h0, h1, e1, e2, joint_term a (1 - D) px0 (by linarith) hx0, joint_term b D px0 hD0.ne' hx0,
    joint_term a D px1 hD0.ne' hx1, joint_term b (1 - D) px1 (by linarith) hx1]
  rw [← h0, ← h1]
  have hb : b = 1 - a := by linarith
  subst hb
  ring

theorem two_rpow_neg_beta (D : ℝ) (hD0 : 0 < D) (hD1 : D < 1) :
    (2 : ℝ) ^ (-(Real.logb 2 ((1 - D) / D) * 1)) = D / (1 - D) := by
  have : 0 < (1 - D) / D := div_pos (by linarith) hD0
  rw [mul_one, Real.rpow_neg (by norm_num), Real.rpow_logb (by norm_num) (by norm_num) this,
    inv_div]

theorem hamming_two : (hammingMatrix 2 : List (List ℝ)) = [[0, 1], [1, 0]] := by
  simp [hammingMatrix, List.range_succ]

theorem hamming_two_isMat : IsMat (hammingMatrix 2 : List (List ℝ)) 2 2 := by
  rw [hamming_two]
  refine ⟨rfl, ?_⟩
  intro row hrow
  simp at hrow
  rcases hrow with rfl | rfl <;> rfl

theorem bern_law (p : ℝ) (hp0 : 0 ≤ p) (hp1 : p ≤ 1) : IsLaw [1 - p, p] 2 := by
  refine ⟨rfl, ?_, by simp⟩
  intro a ha; simp at ha; rcases ha with rfl | rfl <;> linarith

theorem bern_dual (p D : ℝ) (hp0 : 0 < p) (hp1 : p < 1) (hD0 : 0 < D) (hD1 : D < 1)
    (W Q : List (List ℝ)) (hW : IsChannel W 2 2) (hQ : IsMat Q 2 2)
    (hQe : ∀ x < 2, ∀ y < 2, ent Q x y = vec [1 - p, p] x * ent W x y) :
    entropyVals (Real.logb 2) [p, 1 - p] - entropyVals (Real.logb 2) [D, 1 - D]
        + Real.logb 2 ((1 - D) / D) * D
      ≤ jointMI (Real.logb 2) Q
        + Real.logb 2 ((1 - D) / D) * expDistortion Q (hammingMatrix 2) := by
  have h1p : 0 < 1 - p := by linarith
  have h1D : 0 < 1 - D := by linarith
  have h := rd_dual_fn [1 - p, p] W (hammingMatrix 2) Q
    (vec [(1 - D) / (1 - p), (1 - D) / p]) (Real.logb 2 ((1 - D) / D)) 2 2
    (bern_law p hp0.le hp1.le) hW hamming_two_isMat hQ hQe
    (by
      intro x hx
      interval_cases x
      · simpa [vec] using div_pos h1D h1p
      · simpa [vec] using div_pos h1D hp0)
    (by
      intro y hy
      rw [hamming_two]
      interval_cases y
      · simp only [sum_range_succ, sum_range_zero, vec, ent, List.getD_cons_zero,
          List.getD_cons_succ, zero_add, mul_zero, neg_zero, Real.rpow_zero, mul_one]
        rw [← mul_one (Real.logb 2 ((1 - D) / D)), two_rpow_neg_beta D hD0 hD1]
        apply le_of_eq
        field_simp
        ring
      · simp only [sum_range_succ, sum_range_zero, vec, ent, List.getD_cons_zero,
          List.getD_cons_succ, zero_add, mul_zero, neg_zero, Real.rpow_zero, mul_one]
        rw [← mul_one (Real.logb 2 ((1 - D) / D)), two_rpow_neg_beta D hD0 hD1]
        apply le_of_eq
        field_simp
        ring)
  refine le_trans (le_of_eq ?_) h
  simp only [sum_range_succ, sum_range_zero, vec, List.getD_cons_zero, List.getD_cons_succ,
    zero_add]
  rw [entropy_two, entropy_two, Real.logb_div h1D.ne' h1p.ne', Real.logb_div h1D.ne' hp0.ne',
    Real.logb_div h1D.ne' hD0.ne']
  ring

/-- The textbook forward test channel for a Bernoulli(`p`) source under Hamming distortion at
distortion level `D`: output law `(1−s, s)` with `s = (p−D)/(1−2D)`, backward channel BSC(`D`). -/
noncomputable def bernTest (p D : ℝ) : List (List ℝ) :=
  [[(1 - (p - D) / (1 - 2 * D)) * (1 - D) / (1 - p), (p - D) / (1 - 2 * D) * D / (1 - p)],
   [(1 - (p - D) / (1 - 2 * D)) * D / p, (p - D) / (1 - 2 * D) * (1 - D) / p]]

theorem mul_div_self' (c x : ℝ) (hc : c ≠ 0) : c * (x / c) = x := by field_simp

theorem bernTest_joint (p D : ℝ) (hp0 : 0 < p) (hp1 : p < 1) :
    jointOf [1 - p, p] (bernTest p D)
      = [[(1 - (p - D) / (1 - 2 * D)) * (1 - D), (p - D) / (1 - 2 * D) * D],
         [(1 - (p - D) / (1 - 2 * D)) * D, (p - D) / (1 - 2 * D) * (1 - D)]] := by
  have h1p : (1 - p) ≠ 0 := by linarith
  have hp : p ≠ 0 := hp0.ne'
  simp only [jointOf, bernTest, List.zipWith_cons_cons, List.zipWith_nil_right, List.map_cons,
    List.map_nil]
  rw [mul_div_self' _ _ h1p, mul_div_self' _ _ h1p, mul_div_self' _ _ hp, mul_div_self' _ _ hp]

theorem bernTest_isChannel (p D : ℝ) (hp0 : 0 < p) (hp : p ≤ 1 / 2) (hD0 : 0 < D) (hD : D ≤ p)
    (hD2 : D < 1 / 2) : IsChannel (bernTest p D) 2 2 := by
  have h12 : 0 < 1 - 2 * D := by linarith
  have h1p : 0 < 1 - p := by linarith
  unfold bernTest
  set s : ℝ := (p - D) / (1 - 2 * D) with hsdef
  have hsd : s * (1 - 2 * D) = p - D := by rw [hsdef, div_mul_cancel₀ _ h12.ne']
  have hs : 0 ≤ s := div_nonneg (by linarith) h12.le
  have ha : 0 ≤ 1 - s := by
    rw [sub_nonneg, hsdef, div_le_one h12]; linarith
  refine ⟨rfl, ?_⟩
  intro row hrow
  simp only [List.mem_cons, List.not_mem_nil, or_false] at hrow
  rcases hrow with rfl | rfl
  · refine ⟨rfl, ?_, ?_⟩
    · intro a ha'
      simp only [List.mem_cons, List.not_mem_nil, or_false] at ha'
      rcases ha' with rfl | rfl
      · exact div_nonneg (mul_nonneg ha (by linarith)) h1p.le
      · exact div_nonneg (mul_nonneg hs hD0.le) h1p.le
    · simp only [List.sum_cons, List.sum_nil, add_zero]
      rw [← add_div, div_eq_one_iff_eq h1p.ne']
      linear_combination (-1 : ℝ) * hsd
  · refine ⟨rfl, ?_, ?_⟩
    · intro a ha'
      simp only [List.mem_cons, List.not_mem_nil, or_false] at ha'
      rcases ha' with rfl | rfl
      · exact div_nonneg (mul_nonneg ha hD0.le) hp0.le
      · exact div_nonneg (mul_nonneg hs (by linarith)) hp0.le
    · simp only [List.sum_cons, List.sum_nil, add_zero]
      rw [← add_div, div_eq_one_iff_eq hp0.ne']
      linear_combination hsd

theorem bern_achieves (p D : ℝ) (hp0 : 0 < p) (hp1 : p < 1) (hD0 : 0 < D) (hD2 : D < 1 / 2) :
    jointMI (Real.logb 2) (jointOf [1 - p, p] (bernTest p D))
      = entropyVals (Real.logb 2) [p, 1 - p] - entropyVals (Real.logb 2) [D, 1 - D]
    ∧ expDistortion (jointOf [1 - p, p] (bernTest p D)) (hammingMatrix 2) = D := by
  have h12 : (1 - 2 * D) ≠ 0 := by linarith
  rw [bernTest_joint p D hp0 hp1]
  set s : ℝ := (p - D) / (1 - 2 * D) with hsdef
  have hsd : s * (1 - 2 * D) = p - D := by rw [hsdef, div_mul_cancel₀ _ h12]
  constructor
  · apply bern_ach _ _ D (1 - p) p (by ring) hD0 (by linarith) _ _ (by linarith) hp0.ne'
    · linear_combination (-1 : ℝ) * hsd
    · linear_combination hsd
  · rw [expDistortion_two]
    ring

end Bernoulli

end Dit.Lemmas.Channel
