/-
Partial information decomposition (`dit.pid`): the redundancy lattice of antichains of
source sets (Williams–Beer order), Möbius inversion, the consistency / completeness
predicates, and the closed-form redundancies I_min, I_mmi.
-/
import DitModel.Core.Info
namespace Dit

variable {α : Type}

/-- A node of the redundancy lattice: an antichain of non-empty sets of source indices,
each set sorted, the sets sorted by (length, lexicographic) — dit's tuple form. -/
abbrev RNode := List VSet

def nodeLt (a b : VSet) : Bool := a.length < b.length || (a.length == b.length && lexLt a b)

def nodeNorm (a : List VSet) : RNode := isort nodeLt (dedup (a.map vnorm))

/-- `a` is an antichain: no member contains another. -/
def isAntichain (a : List VSet) : Bool :=
  a.all (fun x => a.all (fun y => x == y || !(vsubset x y)))

/-- All nodes for `n` sources. -/
def rnodes (n : Nat) : List RNode :=
  let subsets := ((sublists (List.range n)).filter (fun s => !s.isEmpty)).map vnorm
  (((sublists subsets).filter (fun f => !f.isEmpty && isAntichain f)).map nodeNorm)

/-- Williams–Beer order: `a ≤ b` iff every `β ∈ b` contains some `α ∈ a`. -/
def rle (a b : RNode) : Bool := b.all (fun β => a.any (fun α => vsubset α β))

def rlt (a b : RNode) : Bool := rle a b && !(a == b)

/-- Nodes strictly below `x`. -/
def rbelow (nodes : List RNode) (x : RNode) : List RNode := nodes.filter (fun m => rlt m x)

/-- Top `{0..n-1}` and bottom `{0}{1}…{n-1}`. -/
def rtop (n : Nat) : RNode := [List.range n]
def rbottom (n : Nat) : RNode := (List.range n).map (fun i => [i])

/-- Möbius inversion over a finite order given by `below`: process the nodes in an order in
which every node comes after everything below it (sorted by the number of nodes below),
`π(x) = red(x) − Σ_{m < x} π(m)`. Returns the table of partial-information atoms. -/
def moebius [Add α] [Sub α] [Zero α] (nodes : List RNode) (red : RNode → α) : Tab RNode α :=
  let ordered := isort (fun a b => (rbelow nodes a).length < (rbelow nodes b).length) nodes
  ordered.foldl (fun acc x =>
    acc ++ [(x, red x - lsum ((rbelow nodes x).map (fun m => lookupD 0 acc m)))]) []

/-- `consistent`: every node's redundancy is the sum of the atoms at or below it (within `tol`)
and every single-source node's redundancy is that source's mutual information with the target. -/
def consistentP [Add α] [Sub α] [Zero α] [Neg α] [LT α] [DecidableLT α] [LE α] [DecidableLE α]
    (tolOK : α → α → Bool) (nodes : List RNode) (red : RNode → α) (pis : Tab RNode α)
    (mi : VSet → α) : Bool :=
  nodes.all (fun x =>
    tolOK (red x) (lookupD 0 pis x + lsum ((rbelow nodes x).map (fun m => lookupD 0 pis m)))) &&
  nodes.all (fun x => match x with
    | [s] => tolOK (red x) (mi s)
    | _ => true)

/-! ### Closed-form redundancies on a table. `T` is the list of target variable positions. -/

section
variable {σ : Type} [DecidableEq σ] [BEq α] [Zero α] [Add α] [Sub α] [Mul α] [Div α] [Neg α]
  [LT α] [DecidableLT α]

def lminOf (l : List α) : α :=
  match l with
  | [] => 0
  | x :: t => t.foldl (fun m y => if y < m then y else m) x

/-- Mutual information `I(S : T)` of variable sets from subset entropies. -/
def miOf (log : α → α) (t : Tab (List σ) α) (S T : VSet) : α :=
  entropyOf log t (vnorm S) + entropyOf log t (vnorm T) - entropyOf log t (vunion S T)

/-- `I_mmi(node) = min_{α ∈ node} I(α : T)`. -/
def immi (log : α → α) (t : Tab (List σ) α) (T : VSet) (node : RNode) : α :=
  lminOf (node.map (fun s => miOf log t s T))

/-- Specific information `I(S ; T = τ) = Σ_a p(a|τ) log( p(τ|a) / p(τ) )`. -/
def specificInfo (log : α → α) (t : Tab (List σ) α) (S T : VSet) (τ : List σ) : α :=
  let pT := pushforward (project T) t
  let pS := pushforward (project S) t
  let pST := pushforward (fun o => (project S o, project T o)) t
  let pτ := lookupD 0 pT τ
  lsum (pS.map (fun a =>
    let pa := a.2
    let paτ := lookupD 0 pST (a.1, τ)
    if paτ == 0 || pa == 0 || pτ == 0 then 0
    else (paτ / pτ) * log ((paτ / pa) / pτ)))

/-- `I_min(node) = Σ_τ p(τ) min_{α ∈ node} I(α ; T = τ)` (Williams & Beer). -/
def imin (log : α → α) (t : Tab (List σ) α) (T : VSet) (node : RNode) : α :=
  let pT := pushforward (project T) t
  lsum (pT.map (fun τ =>
    if τ.2 == 0 then 0 else τ.2 * lminOf (node.map (fun s => specificInfo log t s T τ.1))))

end
end Dit
