/-
Changes of representation (C08): relabelling the symbols of each variable, permuting the
variables, permuting the stored rows, adding zero-probability rows.
-/
import DitModel.Core.Table
namespace Dit

variable {σ τ α : Type}

/-- Apply a per-variable symbol map `ρ i : σ → τ` to an outcome. -/
def relabelOutcome (ρ : Nat → σ → τ) (o : List σ) : List τ :=
  (List.zip (List.range o.length) o).map (fun p => ρ p.1 p.2)

/-- Relabel every stored outcome of a table. -/
def relabelTab (ρ : Nat → σ → τ) (t : Tab (List σ) α) : Tab (List τ) α :=
  t.map (fun r => (relabelOutcome ρ r.1, r.2))

/-- Rearrange the variables of an outcome: the new variable `i` is the old variable `π[i]`. -/
def permuteOutcome (π : List Nat) (o : List σ) : List σ := project π o

def permuteTab (π : List Nat) (t : Tab (List σ) α) : Tab (List σ) α :=
  t.map (fun r => (permuteOutcome π r.1, r.2))

/-- Position of old variable `v` after the rearrangement `π` (its index in `π`). -/
def newIndex (π : List Nat) (v : Nat) : Nat := (indexOf? π v).getD π.length

/-- Add rows of probability zero for outcomes not stored yet. -/
def padZeros [Zero α] [DecidableEq σ] (extra : List (List σ)) (t : Tab (List σ) α) : Tab (List σ) α :=
  t ++ ((extra.filter (fun o => !(keys t).contains o)).map (fun o => (o, (0 : α))))

end Dit
