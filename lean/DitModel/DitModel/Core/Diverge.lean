/-
Divergences and dependence coefficients of `dit.divergences` on label-aligned pairs of
probability lists (the alignment itself is `alignPair` on tables), polymorphic in the
number type. Infinite results are an explicit constructor (`none` = `+∞`), not `log 0 = 0`.
-/
import DitModel.Core.Table
import DitModel.Core.Info
namespace Dit

variable {α : Type}

/-- Label alignment (`get_pmfs_like`): the values of `t1` in stored order, and for each of
its outcomes the value of `t2` at the same label (0 when `t2` does not have it). -/
def alignPair {κ : Type} [DecidableEq κ] [Zero α] (t1 t2 : Tab κ α) : List (α × α) :=
  t1.map (fun r => (r.2, lookupD 0 t2 r.1))

/-- Label alignment over the union of labels (`normalize_pmfs`). -/
def alignUnion {κ : Type} [DecidableEq κ] [Zero α] (t1 t2 : Tab κ α) : List (α × α) :=
  (dedup (keys t1 ++ keys t2)).map (fun k => (lookupD 0 t1 k, lookupD 0 t2 k))

section
variable [BEq α] [Zero α] [One α] [Add α] [Sub α] [Mul α] [Div α] [Neg α]

/-- Is the first support inside the second? -/
def absCont (pq : List (α × α)) : Bool := pq.all (fun r => r.1 == 0 || !(r.2 == 0))

/-- Cross entropy `−Σ p log q` over the support of `p`; `+∞` (`none`) when some `p > 0`
meets `q = 0`. -/
def crossEntropyVals (log : α → α) (pq : List (α × α)) : Option α :=
  if absCont pq then
    some (-(lsum (pq.map (fun r => if r.1 == 0 then 0 else r.1 * log r.2))))
  else none

/-- Kullback–Leibler divergence `Σ p log (p/q)`; `+∞` when the support condition fails. -/
def klVals (log : α → α) (pq : List (α × α)) : Option α :=
  if absCont pq then
    some (lsum (pq.map (fun r => if r.1 == 0 then 0 else r.1 * log (r.1 / r.2))))
  else none

/-- Mixture `Σ w_i p_i` of aligned pmfs (columns). -/
def mixVals (pmfs : List (List α)) (w : List α) : List α :=
  match pmfs with
  | [] => []
  | p :: _ => (List.range p.length).map (fun j => lsum (List.zipWith (fun pm wi => wi * pm.getD j 0) pmfs w))

/-- Jensen–Shannon divergence `H(Σ w_i p_i) − Σ w_i H(p_i)`. -/
def jsdVals (log : α → α) (pmfs : List (List α)) (w : List α) : α :=
  entropyVals log (mixVals pmfs w) - lsum (List.zipWith (fun pm wi => wi * entropyVals log pm) pmfs w)

/-- `Σ p^a q^b` with NumPy's `nansum` conventions made explicit: a term is skipped when it
is `0 · ∞` (one factor null with a positive exponent... ) — concretely terms with `p = 0`
and `a > 0`, or `q = 0` and `b > 0`, contribute 0; callers keep to exponents where no `∞·c`
with `c ≠ 0` arises on the supports considered. -/
def powerSum (R : RealOps α) (a b : α) (pq : List (α × α)) : α :=
  lsum (pq.map (fun r => if r.1 == 0 || r.2 == 0 then 0 else R.pow r.1 a * R.pow r.2 b))

end

section
variable [BEq α] [Zero α] [One α] [Add α] [Sub α] [Mul α] [Div α] [Neg α] [LT α] [DecidableLT α]

def absV (x : α) : α := if x < 0 then -x else x

/-- Variational (total variation) distance `½ Σ |p − q|`. -/
def tvVals (two : α) (pq : List (α × α)) : α := lsum (pq.map (fun r => absV (r.1 - r.2))) / two

/-- Bhattacharyya coefficient `Σ √(p q)` and Hellinger distance `√(1 − BC)`. -/
def bcVals (sqrt : α → α) (pq : List (α × α)) : α := lsum (pq.map (fun r => sqrt (r.1 * r.2)))
def hellingerVals (sqrt : α → α) (pq : List (α × α)) : α := sqrt (1 - bcVals sqrt pq)

/-- Rényi / Tsallis(=Hellinger) / alpha divergences through the power sum (orders ≠ 1). -/
def renyiDiv (R : RealOps α) (a : α) (pq : List (α × α)) : α :=
  R.log (powerSum R a (1 - a) pq) / (a - 1)
def tsallisDiv (R : RealOps α) (a : α) (pq : List (α × α)) : α :=
  (powerSum R a (1 - a) pq - 1) / (a - 1)
def alphaDiv (R : RealOps α) (two four : α) (a : α) (pq : List (α × α)) : α :=
  four * (1 - powerSum R ((1 - a) / two) ((1 + a) / two) pq) / (1 - a * a)

/-- Earth mover's distance for the 0–1 (categorical) metric: the mass that has to move. -/
def emdCategorical (two : α) (pq : List (α × α)) : α := tvVals two pq

/-- A transport plan `π` (matrix as list of rows) from `p` to `q` is feasible. -/
def planCost (dist : List (List α)) (plan : List (List α)) : α :=
  lsum (List.zipWith (fun dr pr => lsum (List.zipWith (· * ·) dr pr)) dist plan)

end

/-! ### Maximum correlation: the rational companion matrix. -/

section
variable [Zero α] [One α] [Add α] [Sub α] [Mul α] [Div α] [Neg α] [BEq α]

/-- For a joint pmf matrix `P` (rows x, columns y) the matrix
`A[j][k] = Σ_i P[i][j] P[i][k] / (p_X(i) p_Y(k))`, which is similar to `QᵀQ` for dit's
`Q = P / √(p_X p_Y)`: its eigenvalues are the squared singular values of `Q`. Rows / columns
of zero marginal contribute nothing (as `Q[nan] = 0`). -/
def maxcorrCompanion (P : List (List α)) : List (List α) :=
  let px := P.map lsum
  let ny := (P.head?.getD []).length
  let py := (List.range ny).map (fun k => lsum (P.map (fun row => row.getD k 0)))
  (List.range ny).map (fun j => (List.range ny).map (fun k =>
    lsum (List.zipWith (fun row pxi =>
      if pxi == 0 || py.getD k 0 == 0 then 0 else row.getD j 0 * row.getD k 0 / (pxi * py.getD k 0)) P px)))

def matMul (A B : List (List α)) : List (List α) :=
  A.map (fun row => (List.range ((B.head?.getD []).length)).map (fun k =>
    lsum (List.zipWith (fun a brow => a * brow.getD k 0) row B)))

def matTrace (A : List (List α)) : α :=
  lsum ((List.range A.length).map (fun i => (A.getD i []).getD i 0))

def matAddScalar (A : List (List α)) (c : α) : List (List α) :=
  (List.range A.length).map (fun i => (List.range A.length).map (fun j =>
    (A.getD i []).getD j 0 + (if i = j then c else 0)))

/-- Coefficients `c₁ … c_n` of the characteristic polynomial
`λⁿ + c₁ λⁿ⁻¹ + … + c_n` by the Faddeev–LeVerrier recursion (`ofNat` casts the step index). -/
def charPoly (ofNat : Nat → α) (A : List (List α)) : List α :=
  let n := A.length
  let step := fun (acc : List (List α) × List α) (k : Nat) =>
    -- acc.1 = M_k, produces c_k = -tr(A M_k)/k and M_{k+1} = A M_k + c_k I
    let AM := matMul A acc.1
    let c := -(matTrace AM) / ofNat k
    (matAddScalar AM c, acc.2 ++ [c])
  let ident : List (List α) := (List.range n).map (fun i => (List.range n).map (fun j => if i = j then 1 else 0))
  ((List.range n).foldl (fun acc k => step acc (k + 1)) (ident, [])).2

end
end Dit
