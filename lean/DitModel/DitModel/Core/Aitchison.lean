/-
Simplex utilities: the Aitchison geometry of `dit.math.aitchison` and the pmf
operations of `dit.math.pmfops`, on lists of numbers, polymorphic in the number type.
Transcendental functions come in through `AOps` (`log` = log₂, `exp` = 2^·, `sqrt`, `pow`),
instantiated with `Float` in the driver and with `Real` in the proofs.
-/
import DitModel.Core.Table
namespace Dit

variable {α : Type}

structure AOps (α : Type) where
  log : α → α
  exp : α → α
  sqrt : α → α
  pow : α → α → α
  ofNat : Nat → α

section
variable [Add α] [Zero α] [One α] [Mul α] [Div α] [Sub α] [Neg α]

/-- `closure`: divide by the total. -/
def closure (x : List α) : List α := x.map (· / lsum x)

/-- `perturbation`: closed component-wise product. -/
def perturbation (x y : List α) : List α := closure (List.zipWith (· * ·) x y)

/-- `power`: closed component-wise power. -/
def powering (A : AOps α) (x : List α) (a : α) : List α := closure (x.map (fun v => A.pow v a))

/-- Mean of the logs (`_log2_gm`). -/
def logGM (A : AOps α) (x : List α) : α := lsum (x.map A.log) / A.ofNat x.length

/-- Centred log-ratio transform. -/
def clr (A : AOps α) (x : List α) : List α := x.map (fun v => A.log v - logGM A x)

/-- Inverse clr: `closure (2^y)`. -/
def clrInv (A : AOps α) (y : List α) : List α := closure (y.map A.exp)

/-- Additive log-ratio transform (reference component: the last). -/
def alr (A : AOps α) (x : List α) : List α :=
  match x.getLast? with
  | none => []
  | some l => x.dropLast.map (fun v => A.log v - A.log l)

/-- Inverse alr. -/
def alrInv (A : AOps α) (y : List α) : List α := closure (y.map A.exp ++ [1])

/-- Isometric log-ratio transform: component `i` (1 ≤ i < n) is
`sqrt(i/(i+1)) · (mean_{j<i} log x_j − log x_i)`. -/
def ilr (A : AOps α) (x : List α) : List α :=
  (List.range (x.length - 1)).map (fun k =>
    let i := k + 1
    A.sqrt (A.ofNat i / A.ofNat (i + 1)) *
      (lsum ((x.take i).map A.log) / A.ofNat i - A.log (x.getD i 0)))

/-- Row `i` (1 ≤ i ≤ n) of the clr-basis `ubasis(n)`, of length `n+1`:
`1/i` in the first `i` places, `−1` in place `i`, zeros after, all times `sqrt(i/(i+1))`. -/
def ubasisRow (A : AOps α) (n i : Nat) : List α :=
  (List.range (n + 1)).map (fun j =>
    A.sqrt (A.ofNat i / A.ofNat (i + 1)) *
      (if j < i then 1 / A.ofNat i else if j = i then -1 else 0))

/-- Inverse ilr: `clrInv (Σ_i y_i · u_i)`. -/
def ilrInv (A : AOps α) (y : List α) : List α :=
  let n := y.length
  clrInv A ((List.range (n + 1)).map (fun j =>
    lsum ((List.range n).map (fun k => y.getD k 0 * (ubasisRow A n (k + 1)).getD j 0))))

/-- Aitchison inner product `⟨x, y⟩ = Σ clr(x)_k clr(y)_k`. -/
def ainner (A : AOps α) (x y : List α) : α := lsum (List.zipWith (· * ·) (clr A x) (clr A y))

/-- Aitchison norm and distance. -/
def anorm (A : AOps α) (x : List α) : α := A.sqrt (ainner A x x)
def adist (A : AOps α) (x y : List α) : α := anorm A (perturbation x (powering A y (-1)))

/-- Euclidean inner product of coordinate vectors. -/
def dot (x y : List α) : α := lsum (List.zipWith (· * ·) x y)

/-- `convex_combination(pmfs, weights)`: weights are normalised first. -/
def convexCombination (pmfs : List (List α)) (w : List α) : List α :=
  let wn := closure w
  match pmfs with
  | [] => []
  | p :: _ => (List.range p.length).map (fun j =>
      lsum (List.zipWith (fun pm wi => pm.getD j 0 * wi) pmfs wn))

/-- `replace_zeros(pmf, delta, rand=False)` generalised to a list of replacement values
(one per zero entry, consumed in order): zeros get the replacement, the others are scaled
by `1 − Σ replacements`. -/
def replaceZeros [BEq α] (pmf : List α) (repl : List α) : List α :=
  let nz := (pmf.filter (· == 0)).length
  let used := repl.take nz
  let scale := 1 - lsum used
  (pmf.foldl (fun (acc : List α × List α) p =>
      if p == 0 then
        match acc.2 with
        | r :: rs => (acc.1 ++ [r], rs)
        | [] => (acc.1 ++ [p], [])
      else (acc.1 ++ [p * scale], acc.2)) ([], used)).1

end

section
variable [Add α] [Zero α] [One α] [Mul α] [Div α] [Sub α] [LT α] [DecidableLT α] [LE α] [DecidableLE α]

/-- Nearest grid value `k/m` to `p` (ties go to the lower one, as `np.argmin` picks the
first), given as the numerator `k`. `ofNat` casts. -/
def snapNum (ofNat : Nat → α) (m : Nat) (p : α) : Nat :=
  -- largest k ≤ m with k/m ≤ p
  let lower := (List.range (m + 1)).foldl (fun best k => if ofNat k / ofNat m ≤ p then k else best) 0
  let upper := if lower < m then lower + 1 else lower
  let dl := p - ofNat lower / ofNat m
  let du := ofNat upper / ofNat m - p
  if du < dl then upper else lower

/-- `downsample(pmf, m)` by component-wise L1 snapping: for each component but the last,
snap it to the nearest grid value and rescale the remaining components so the total stays 1
(set them to 0 once the snapped prefix already sums to 1). -/
def downsampleGo (ofNat : Nat → α) (m : Nat) : Nat → List α → α → List α
  | 0, xs, _ => xs
  | _ + 1, [], _ => []
  | _ + 1, [p], _ => [p]
  | fuel + 1, p :: rest, prev =>
    let s := ofNat (snapNum ofNat m p) / ofNat m
    let prev' := prev + s
    let tot := lsum rest
    let rest' := if 1 - prev' ≤ 0 then rest.map (fun _ => (0 : α))
                 else rest.map (fun v => v * ((1 - prev') / tot))
    s :: downsampleGo ofNat m fuel rest' prev'

def downsample (ofNat : Nat → α) (m : Nat) (pmf : List α) : List α :=
  downsampleGo ofNat m pmf.length pmf 0

end

end Dit
