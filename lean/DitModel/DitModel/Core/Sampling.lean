/-
Inverse-CDF sampling in stored order: the model of
`dit.math.sampling._sample(s)_discrete__python`.
-/
import DitModel.Core.Table
namespace Dit

variable {α : Type}

/-- The scan `total = 0; for j, p in enumerate(pmf): total += p; if u < total: return j`,
with the running total and the current index made explicit.  `none` means the loop
fell off the end without returning. -/
def scanFrom [Add α] [LT α] [DecidableLT α] : List α → α → α → Nat → Option Nat
  | [], _, _, _ => none
  | p :: ps, u, total, j =>
      if u < total + p then some j else scanFrom ps u (total + p) (j + 1)

/-- `sampleIdx pmf u`: index selected by the random number `u`. -/
def sampleIdx [Add α] [Zero α] [LT α] [DecidableLT α] (pmf : List α) (u : α) : Option Nat :=
  scanFrom pmf u 0 0

/-- Index of the last strictly positive entry (the documented fallback when
rounding leaves `u` at or above the floating-point total). -/
def lastPos [Zero α] [LT α] [DecidableLT α] : List α → Nat → Option Nat → Option Nat
  | [], _, acc => acc
  | p :: ps, j, acc => lastPos ps (j + 1) (if (0 : α) < p then some j else acc)

/-- Selection with fallback. -/
def sampleIdxF [Add α] [Zero α] [LT α] [DecidableLT α] (pmf : List α) (u : α) : Option Nat :=
  match sampleIdx pmf u with
  | some j => some j
  | none => lastPos pmf 0 none

/-- Draw with a list of uniforms (`size = n`, `rand = us`). -/
def sampleMany [Add α] [Zero α] [LT α] [DecidableLT α] (pmf : List α) (us : List α) :
    List (Option Nat) :=
  us.map (sampleIdx pmf)

end Dit
