/-
Set partitions as `dit.utils.misc.partitions1` enumerates them (bit-mask recursion), and the
functional common information (`dit.multivariate.functional_common_information`): the least
entropy of a function `W = f(X)` of the variables that renders the groups conditionally
independent.  A function of the outcomes is a partition of the outcomes, so `F` is a minimum
over set partitions; the code searches them by successive merges starting from the finest one,
the model takes the minimum over all of them (`setPartitions`, Core/Info.lean).
-/
import DitModel.Core.Info
import DitModel.Core.Meet
namespace Dit

section
variable {β : Type}

/-- One step of `partitions1`: item `j` of `l` goes to `parts[(i >> j) & 1]`. Returns `(parts[0], parts[1])`. -/
def splitByMask : List β → Nat → List β × List β
  | [], _ => ([], [])
  | x :: t, i =>
    let r := splitByMask t (i / 2)
    if i % 2 = 0 then (x :: r.1, r.2) else (r.1, x :: r.2)

/-- `partitions1(set_)`: for every mask `i < 2^len / 2` (so the last item stays in the first block) the
first block is `parts[0]` and the rest is a partition of `parts[1]`.  The recursion is on a shorter list;
`fuel` makes it structural (`partitions1` supplies enough). -/
def partitions1Fuel : Nat → List β → List (List (List β))
  | _, [] => [[]]
  | 0, _ :: _ => []
  | fuel + 1, x :: t =>
    (List.range (2 ^ (x :: t).length / 2)).flatMap (fun i =>
      let r := splitByMask (x :: t) i
      (partitions1Fuel fuel r.2).map (fun b => r.1 :: b))

def partitions1 (l : List β) : List (List (List β)) := partitions1Fuel l.length l

end

section
variable {σ α : Type} [DecidableEq σ] [DecidableEq α] [Add α] [Zero α] [Mul α] [One α]

/-- Mass of a block of outcomes. -/
def blockMass (t : Tab (List σ) α) (B : List (List σ)) : α :=
  lsum (B.map (fun o => lookupD 0 t o))

/-- Mass, inside block `B`, of the outcomes whose projection on the variables `g` is `v`. -/
def blockMargin (t : Tab (List σ) α) (B : List (List σ)) (g : List Nat) (v : List σ) : α :=
  lsum ((B.filter (fun o => decide (project g o = v))).map (fun o => lookupD 0 t o))

/-- Mass, inside block `B`, of the outcomes whose projections on the groups are `vs` (one value per group). -/
def blockJoint (t : Tab (List σ) α) (B : List (List σ)) (groups : List (List Nat)) (vs : List (List σ)) : α :=
  lsum ((B.filter (fun o => decide (groups.map (fun g => project g o) = vs))).map (fun o => lookupD 0 t o))

/-- All choices of one value per group among the values seen in the block. -/
def blockValueTuples (B : List (List σ)) : List (List Nat) → List (List (List σ))
  | [] => [[]]
  | g :: gs =>
    (dedup (B.map (project g))).flatMap (fun v => (blockValueTuples B gs).map (fun vs => v :: vs))

/-- `x ^ n` by repeated multiplication. -/
def mpow (x : α) : Nat → α
  | 0 => 1
  | n + 1 => x * mpow x n

/-- The groups are conditionally independent given the block: `P(x_1..x_k | B) = Π_i P(x_i | B)` for every
choice of values, written without division: `joint · mass^(k-1) = Π_i margin_i`. -/
def blockIndep (t : Tab (List σ) α) (groups : List (List Nat)) (B : List (List σ)) : Bool :=
  (blockValueTuples B groups).all (fun vs =>
    decide (blockJoint t B groups vs * mpow (blockMass t B) (groups.length - 1)
      = ((groups.zip vs).map (fun gv => blockMargin t B gv.1 gv.2)).foldl (· * ·) 1))

/-- The partition `P` of the outcomes (a function of the variables) renders the groups conditionally
independent. -/
def fciFeasible (t : Tab (List σ) α) (groups : List (List Nat)) (P : List (List (List σ))) : Bool :=
  P.all (blockIndep t groups)

/-- All functions of the outcomes that render the groups conditionally independent. -/
def fciCandidates (t : Tab (List σ) α) (groups : List (List Nat)) : List (List (List (List σ))) :=
  (setPartitions (keys t)).filter (fciFeasible t groups)

/-- The probabilities of the values of the function given by the partition `P`. -/
def partMasses (t : Tab (List σ) α) (P : List (List (List σ))) : List α := P.map (blockMass t)

end
end Dit
