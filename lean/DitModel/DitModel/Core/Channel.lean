/-
Channels, capacity and rate–distortion (`dit.algorithms.channelcapacity`,
`dit.rate_distortion.blahut_arimoto`): the quantities the Blahut–Arimoto routines report and
the duality certificates that bound the distance of any candidate to the optimum.
Matrices are lists of rows; `log` is the base-2 logarithm passed as a parameter.
-/
import DitModel.Core.Table
import DitModel.Core.Info
namespace Dit

variable {α : Type}

section
variable [BEq α] [Zero α] [One α] [Add α] [Sub α] [Mul α] [Div α] [Neg α] [LT α] [DecidableLT α]

/-- Output law `q_y = Σ_x r_x P[x][y]`. -/
def outputLaw (r : List α) (P : List (List α)) : List α :=
  match P with
  | [] => []
  | row :: _ => (List.range row.length).map (fun y => lsum (List.zipWith (fun rx px => rx * px.getD y 0) r P))

/-- `D(p ‖ q) = Σ p log (p/q)` over the support of `p` (finite-valued form; callers make sure
`q` dominates `p`). -/
def klRow (log : α → α) (p q : List α) : α :=
  lsum (List.zipWith (fun a b => if a == 0 then 0 else a * log (a / b)) p q)

/-- Mutual information of input law `r` through channel `P`: `Σ_x r_x D(P_x ‖ rP)`. -/
def channelMI (log : α → α) (r : List α) (P : List (List α)) : α :=
  lsum (List.zipWith (fun rx px => rx * klRow log px (outputLaw r P)) r P)

def lmaxOf (l : List α) : α :=
  match l with
  | [] => 0
  | x :: t => t.foldl (fun m y => if m < y then y else m) x

/-- The KKT / duality gap of an input law: `max_x D(P_x ‖ rP) − I(r; P)` — an upper bound on
`C − I(r;P)` (`Props/C13.capacity_dual_bound`). -/
def capacityGap (log : α → α) (r : List α) (P : List (List α)) : α :=
  lmaxOf (P.map (fun px => klRow log px (outputLaw r P))) - channelMI log r P

/-- One Blahut–Arimoto step for capacity: `q(x|y) ∝ r_x P_xy`, `r'_x ∝ Π_y q(x|y)^{P_xy}`,
written with `exp`/`log` (`r'_x ∝ exp Σ_y P_xy log q(x|y)`). -/
def baCapacityStep (log exp : α → α) (r : List α) (P : List (List α)) : List α :=
  let q := outputLaw r P
  let w := List.zipWith (fun rx px =>
    exp (lsum (List.zipWith (fun pxy qy => if pxy == 0 then 0 else pxy * log (rx * pxy / qy)) px q))) r P
  w.map (· / lsum w)

/-! ### Rate–distortion. `Q` is a joint matrix over (x, y); `d` a distortion matrix. -/

def rowSums (Q : List (List α)) : List α := Q.map lsum
def colSums (Q : List (List α)) : List α :=
  match Q with
  | [] => []
  | row :: _ => (List.range row.length).map (fun y => lsum (Q.map (fun r => r.getD y 0)))

/-- Mutual information of a joint matrix. -/
def jointMI (log : α → α) (Q : List (List α)) : α :=
  let px := rowSums Q
  let py := colSums Q
  lsum (List.zipWith (fun row pxi =>
    lsum (List.zipWith (fun qxy pyj => if qxy == 0 then 0 else qxy * log (qxy / (pxi * pyj))) row py)) Q px)

/-- Expected distortion `Σ Q[x][y] d[x][y]`. -/
def expDistortion (Q d : List (List α)) : α :=
  lsum (List.zipWith (fun qr dr => lsum (List.zipWith (· * ·) qr dr)) Q d)

/-- Hamming distortion matrix. -/
def hammingMatrix (n : Nat) : List (List α) :=
  (List.range n).map (fun i => (List.range n).map (fun j => if i = j then 0 else 1))

/-- Dual certificate for rate–distortion at slope `β` (Csiszár's lower bound): for the output
law `q` of a candidate, `λ_x = 1 / Σ_y q_y 2^{−β d(x,y)}`, `c_y = Σ_x p_x λ_x 2^{−β d(x,y)}`; then
every test channel satisfies `R + β D ≥ Σ_x p_x log λ_x − log max_y c_y`. -/
def rdLowerBound (log exp2 : α → α) (beta : α) (p q : List α) (d : List (List α)) : α :=
  let lam := d.map (fun dr => 1 / lsum (List.zipWith (fun qy dxy => qy * exp2 (-(beta * dxy))) q dr))
  let ny := q.length
  let c := (List.range ny).map (fun y =>
    lsum (List.zipWith (fun px lr => px * lr.1 * exp2 (-(beta * lr.2.getD y 0))) p (lam.zip d)))
  lsum (List.zipWith (fun px l => if px == 0 then 0 else px * log l) p lam) - log (lmaxOf c)

end
end Dit
