/-
`dit.algorithms.prune_expand`: `pruned_samplespace` (sample space := the outcomes that are not exactly null, plus
outcomes explicitly kept) and `expanded_samplespace` (sample space := the Cartesian product of the sorted
per-variable alphabets, or of their union). Both rebuild the distribution with the default constructor, which is
`construct` of Core/Dist.lean. Import-free and executable.
-/
import DitModel.Core.Dist
namespace Dit

variable {σ α : Type}

/-- Every member of the sample space with its value (`d.zipped(mode='atoms')`). -/
def Dist.atoms [DecidableEq σ] [Zero α] (d : Dist σ α) : Tab (List σ) α :=
  d.space.toList.map (fun o => (o, (d.get o).getD 0))

/-- `pruned_samplespace(d, keep)`: `isNullExact` is the exact null test of the distribution's base (`p == 0` for
linear, `p == −∞` for log distributions). -/
def prunedDist [DecidableEq σ] [Add α] [Zero α] (cfg : NumCfg α) (isNullExact : α → Bool)
    (symLt : σ → σ → Bool) (outLt : List σ → List σ → Bool)
    (d : Dist σ α) (keep : List (List σ)) : Except Err (Dist σ α) :=
  let rows := d.atoms.filter (fun r => !isNullExact r.2 || keep.contains r.1)
  construct cfg symLt outLt (keys rows) (vals rows) (.sampleSpace (keys rows)) d.base true true

/-- Union of alphabets, sorted, without repetitions. -/
def unionAlphabet [DecidableEq σ] (symLt : σ → σ → Bool) (as : List (List σ)) : List σ :=
  isort symLt (dedup as.flatten)

/-- `expanded_samplespace(d, alphabets=None, union)`. -/
def expandedDist [DecidableEq σ] [Add α] [Zero α] (cfg : NumCfg α)
    (symLt : σ → σ → Bool) (outLt : List σ → List σ → Bool)
    (d : Dist σ α) (union : Bool) : Except Err (Dist σ α) :=
  let as := d.space.alphabets.map (isort symLt)
  let as' := if union then as.map (fun _ => unionAlphabet symLt as) else as
  construct cfg symLt outLt (keys d.tab) (vals d.tab) (.cartesian as') d.base true true

end Dit
