/-
dit.inference.binning on exact numbers: `uniform_binning` (see `uniformBin` in Core/Examples.lean) and
`maxent_binning` — thresholds are NumPy's linear-interpolation percentiles at 100·i/bins, the first and last
threshold are replaced by −∞ / +∞, and the loop `symb[(a <= ts) & (ts < b)] = i` runs over consecutive pairs.
Import-free and executable; theorems are in Lemmas/Binning.lean and Props/C19Binning.lean.
-/
import DitModel.Core.Dist
namespace Dit
section
variable {α : Type} [Add α] [Sub α] [Mul α] [Div α] [Zero α] [LT α] [LE α] [DecidableLT α] [DecidableLE α]

/-- Ascending insertion sort of the samples. -/
def sortAsc (ts : List α) : List α := isort (fun a b => decide (a < b)) ts

/-- `np.percentile(a, 100·num/den)` with the default linear interpolation, `a` sorted ascending and non-empty:
virtual index `v = num·(n−1)/den`, result `a[⌊v⌋] + (a[⌊v⌋+1] − a[⌊v⌋])·frac v` (upper index clamped to `n−1`). -/
def quantileSorted (ofNat : Nat → α) (a : List α) (num den : Nat) : α :=
  let n := a.length
  let pos := num * (n - 1)
  let lo := pos / den
  let x := a.getD lo 0
  let y := a.getD (min (lo + 1) (n - 1)) 0
  x + (y - x) * (ofNat (pos % den) / ofNat den)

/-- The `bins + 1` percentiles at `100·i/bins`, `i = 0..bins`. -/
def maxentThresholds (ofNat : Nat → α) (bins : Nat) (ts : List α) : List α :=
  (List.range (bins + 1)).map (fun i => quantileSorted ofNat (sortAsc ts) i bins)

/-- The assignment loop for one sample: for `i = 0..bins−1`, if `a_i ≤ x < b_i` the label becomes `i`, where
`a_0 = −∞` and `b_{bins−1} = +∞`. `none` = the sample was never assigned (stays NaN in the code). -/
def maxentLoop (ths : List α) (bins : Nat) (x : α) : Option Nat :=
  (List.range bins).foldl (fun lab i =>
    let lowerOK := i = 0 ∨ ths.getD i 0 ≤ x
    let upperOK := i + 1 = bins ∨ x < ths.getD (i + 1) 0
    if lowerOK ∧ upperOK then some i else lab) none

/-- `maxent_binning(ts, bins)`. -/
def maxentBinning (ofNat : Nat → α) (bins : Nat) (ts : List α) : List (Option Nat) :=
  let ths := maxentThresholds ofNat bins ts
  ts.map (maxentLoop ths bins)

/-- Closed form of the label: the number of interior thresholds `t_1..t_{bins−1}` that are `≤ x`. -/
def countLE (ths : List α) (bins : Nat) (x : α) : Nat :=
  ((List.range bins).filter (fun i => decide (0 < i) && decide (ths.getD i 0 ≤ x))).length

end
end Dit
