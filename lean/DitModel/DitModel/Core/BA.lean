/-
The rate–distortion Blahut–Arimoto iteration of `dit.rate_distortion.blahut_arimoto._blahut_arimoto`,
step by step, with the three distortion functions dit passes to it (Hamming, residual entropy, and the
information-bottleneck distortion `d(x,t) = D(p(Y|x) ‖ q(Y|t))` of `blahut_arimoto_ib`).
A test channel `W` is a list of rows `q(y|x)`; `p` is the source pmf. `exp2`, `log2` are parameters.
Import-free and executable; theorems are in Lemmas/BA.lean and Props/C13BA.lean.
-/
import DitModel.Core.Channel
namespace Dit

variable {α : Type}

section
variable [BEq α] [Zero α] [One α] [Add α] [Sub α] [Mul α] [Div α] [Neg α] [LT α] [DecidableLT α]

/-- `next_q_y_x`: `q(y|x) = q(y) 2^{−β d(x,y)} / Σ_y' q(y') 2^{−β d(x,y')}`. -/
def baNextW (exp2 : α → α) (beta : α) (qy : List α) (d : List (List α)) : List (List α) :=
  d.map (fun row =>
    let u := List.zipWith (fun q dxy => q * exp2 (-(beta * dxy))) qy row
    u.map (· / lsum u))

/-- `av_dist`: `Σ_x p(x) Σ_y q(y|x) d(x,y)`. -/
def baAvDist (p : List α) (W d : List (List α)) : α :=
  lsum (List.zipWith (fun px r => px * r) p
    (List.zipWith (fun wr dr => lsum (List.zipWith (· * ·) wr dr)) W d))

/-- `next_rd`: new output marginal from the current channel, new channel from it (distortion matrix of the
CURRENT channel), and the expected distortion of the NEW channel under the NEW channel's matrix. -/
def baStep (exp2 : α → α) (beta : α) (p : List α) (distFn : List (List α) → List (List α))
    (W : List (List α)) : List (List α) × α :=
  let qy := outputLaw p W
  let W' := baNextW exp2 beta qy (distFn W)
  (W', baAvDist p W' (distFn W'))

/-- The loop `while not isclose(prev_d, d) and iters < max_iters`, with `prev_d = 0` initially. Returns the final
channel, its distortion value and the number of iterations made. -/
def baLoop (exp2 : α → α) (beta : α) (p : List α) (distFn : List (List α) → List (List α))
    (close : α → α → Bool) : Nat → List (List α) → α → α → Nat → List (List α) × α × Nat
  | 0, W, _, d, it => (W, d, it)
  | fuel + 1, W, prev, d, it =>
    if close prev d then (W, d, it)
    else
      let (W', d') := baStep exp2 beta p distFn W
      baLoop exp2 beta p distFn close fuel W' d d' (it + 1)

/-- `_blahut_arimoto(p_x, beta, q_y_x, distortion, max_iters)`: final channel, reported distortion, iterations. -/
def baRun (exp2 : α → α) (beta : α) (p : List α) (distFn : List (List α) → List (List α))
    (close : α → α → Bool) (maxIters : Nat) (W0 : List (List α)) : List (List α) × α × Nat :=
  baLoop exp2 beta p distFn close maxIters W0 0 (baAvDist p W0 (distFn W0)) 0

/-- All iterates `W_0, W_1, …, W_k` with their distortion values (no stopping rule). -/
def baIterates (exp2 : α → α) (beta : α) (p : List α) (distFn : List (List α) → List (List α)) :
    Nat → List (List α) → List (List (List α) × α)
  | 0, W => [(W, baAvDist p W (distFn W))]
  | k + 1, W => (W, baAvDist p W (distFn W)) :: baIterates exp2 beta p distFn k (baStep exp2 beta p distFn W).1

/-- The joint `q(x,y) = p(x) q(y|x)` that is returned. -/
def baJoint (p : List α) (W : List (List α)) : List (List α) :=
  List.zipWith (fun px r => r.map (px * ·)) p W

/-- `hamming_distortion`: `1 − eye(n, m)`, whatever the channel. -/
def hammingDist (n m : Nat) : List (List α) :=
  (List.range n).map (fun i => (List.range m).map (fun j => if i == j then 0 else 1))

/-- `residual_entropy_distortion`: `d(x,y) = −log q(x|y) − log q(y|x)` for the joint `p(x) q(y|x)`. -/
def residualDist (log2 : α → α) (p : List α) (W : List (List α)) : List (List α) :=
  let Q := baJoint p W
  let cs := colSums Q
  let rs := rowSums Q
  List.zipWith (fun row rx => List.zipWith (fun qxy cy => -(log2 (qxy / cy)) + -(log2 (qxy / rx))) row cs) Q rs

/-- `next_q_y_t` of `blahut_arimoto_ib`: `q(y|t) = Σ_x p(x,y) q(t|x) / q(t)`; a bottleneck value of
probability zero gets the all-ones row (the code replaces NaN by 1). Rows are indexed by `t`. -/
def ibQyt (pxy : List (List α)) (W : List (List α)) : List (List α) :=
  match W with
  | [] => []
  | w0 :: _ =>
    (List.range w0.length).map (fun t =>
      let col := match pxy with
        | [] => []
        | r0 :: _ => (List.range r0.length).map (fun y =>
            lsum (List.zipWith (fun prow wrow => prow.getD y 0 * wrow.getD t 0) pxy W))
      let z := lsum col
      if z == 0 then col.map (fun _ => 1) else col.map (· / z))

/-- The information-bottleneck distortion matrix `d(x,t) = D(p(Y|x) ‖ q(Y|t))` (base-2 `klRow`). -/
def ibDist (log2 : α → α) (pxy : List (List α)) (W : List (List α)) : List (List α) :=
  let qyt := ibQyt pxy W
  pxy.map (fun prow =>
    let z := lsum prow
    let pyx := prow.map (· / z)
    qyt.map (fun qrow => klRow log2 pyx qrow))

/-- The Lagrangian the iteration descends for a FIXED matrix `d`: with `q` any output law,
`L(W, q) = Σ_x p(x) Σ_y W(y|x) [log2 (W(y|x)/q(y)) + β d(x,y)]`; `L(W, pW) = I(p;W) + β E[d]`. -/
def baLagrangian (log2 : α → α) (beta : α) (p : List α) (W d : List (List α)) (q : List α) : α :=
  lsum (List.zipWith (fun px wd =>
      px * lsum (List.zipWith (fun (wq : α × α) dxy =>
        if wq.1 == 0 then 0 else wq.1 * (log2 (wq.1 / wq.2) + beta * dxy)) (wd.1.zip q) wd.2))
    p (W.zip d))

end
end Dit
