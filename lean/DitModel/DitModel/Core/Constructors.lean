/-
Distribution constructors and algebra of `dit.distconst` / `dit.npscalardist` /
`dit.algorithms.stats` on tables (values in the linear domain).
-/
import DitModel.Core.Table
import DitModel.Core.Dist
namespace Dit

variable {σ τ α : Type}

/-- `modify_outcomes(dist, f)`: pushforward under `f` (collisions merged, first-appearance
order; the constructor then sorts). -/
def modifyOutcomes [DecidableEq τ] [Add α] (f : σ → τ) (t : Tab σ α) : Tab τ α :=
  pushforward f t

/-- `insert_rvf(d, f, index)`: append (index = none) or insert at `index` the symbols `f o`. -/
def insertRvf (f : List σ → List σ) (index : Option Nat) (t : Tab (List σ) α) : Tab (List σ) α :=
  t.map (fun r =>
    match index with
    | none => (r.1 ++ f r.1, r.2)
    | some i => (r.1.take i ++ f r.1 ++ r.1.drop i, r.2))

/-- Product of tables: outcomes concatenated, values multiplied, in `itertools.product` order. -/
def productTabs [Mul α] [One α] : List (Tab (List σ) α) → Tab (List σ) α
  | [] => [([], 1)]
  | t :: rest => t.flatMap (fun r => (productTabs rest).map (fun s => (r.1 ++ s.1, r.2 * s.2)))

/-- `product_distribution(d, groups)`: product of the marginals on the groups. -/
def productDistribution [DecidableEq σ] [Add α] [Mul α] [One α]
    (groups : List (List Nat)) (t : Tab (List σ) α) : Tab (List σ) α :=
  productTabs (groups.map (fun g => pushforward (project g) t))

/-- `mixture_distribution(dists, weights, merge=True)`: for every outcome of the union (in
order of first appearance across the components), `Σ_i w_i · P_i(o)`, absent = 0. -/
def mixture [DecidableEq σ] [Add α] [Zero α] [Mul α] (ts : List (Tab σ α)) (w : List α) : Tab σ α :=
  let outs := dedup (ts.flatMap keys)
  outs.map (fun o => (o, lsum (List.zipWith (fun t wi => wi * lookupD 0 t o) ts w)))

/-- `mixture_distribution2`: aligned pmfs, `Σ_i w_i · pmf_i` position-wise on the first table's keys. -/
def mixture2 [Add α] [Zero α] [Mul α] (ts : List (Tab σ α)) (w : List α) : Tab σ α :=
  match ts with
  | [] => []
  | t :: _ => (List.zip (keys t) (List.range t.length)).map (fun kj =>
      (kj.1, lsum (List.zipWith (fun ti wi => wi * (vals ti).getD kj.2 0) ts w)))

/-- Law of `op(X, Y)` for independent `X ~ t1`, `Y ~ t2` (collisions merged). -/
def combine [DecidableEq τ] [Add α] [Mul α] (op : σ → σ → τ) (t1 t2 : Tab σ α) : Tab τ α :=
  pushforward (fun (p : σ × σ) => op p.1 p.2)
    (t1.flatMap (fun r => t2.map (fun s => ((r.1, s.1), r.2 * s.2))))

/-- `d1 @ d2`: independent joint of two scalar distributions. -/
def matmul [Mul α] (t1 t2 : Tab σ α) : Tab (List σ) α :=
  t1.flatMap (fun r => t2.map (fun s => ([r.1, s.1], r.2 * s.2)))

/-- `uniform(outcomes)`. -/
def uniformTab [Div α] [One α] (ofNat : Nat → α) (outs : List σ) : Tab σ α :=
  outs.map (fun o => (o, 1 / ofNat outs.length))

/-- `erasure(d, ε)`: every symbol is independently replaced by the erasure symbol `e`
with probability `ε`. -/
def erasureTab [DecidableEq σ] [Add α] [Mul α] [One α] [Sub α] (e : σ) (eps : α)
    (t : Tab (List σ) α) : Tab (List σ) α :=
  let expand : List σ → Tab (List σ) α := fun o =>
    o.foldr (fun s acc => acc.flatMap (fun r => [(s :: r.1, (1 - eps) * r.2), (e :: r.1, eps * r.2)])) [([], 1)]
  pushforward (fun o => o) (t.flatMap (fun r => (expand r.1).map (fun x => (x.1, r.2 * x.2))))

/-- `noisy(d, noise)`: mixture with the uniform distribution on the Cartesian product of the
alphabets. -/
def noisyTab [DecidableEq σ] [Add α] [Zero α] [Mul α] [One α] [Sub α] [Div α] (ofNat : Nat → α)
    (alphabets : List (List σ)) (noise : α) (t : Tab (List σ) α) : Tab (List σ) α :=
  mixture [t, uniformTab ofNat (cartesian alphabets)] [1 - noise, noise]

/-! ### Statistics of numeric scalar distributions (outcomes are numbers of type `α`). -/

def meanTab [Add α] [Zero α] [Mul α] (t : Tab α α) : α := lsum (t.map (fun r => r.1 * r.2))

def npow [Mul α] [One α] (x : α) : Nat → α
  | 0 => 1
  | k + 1 => x * npow x k

def centralMoment [Add α] [Zero α] [Mul α] [One α] [Sub α] (t : Tab α α) (k : Nat) : α :=
  let m := meanTab t
  lsum (t.map (fun r => npow (r.1 - m) k * r.2))

/-- Mode(s): outcomes of maximal probability. -/
def modeTab [LT α] [DecidableLT α] [Zero α] (t : Tab σ α) : List σ :=
  let mx := t.foldl (fun m r => if m < r.2 then r.2 else m) 0
  (t.filter (fun r => !(r.2 < mx))).map (·.1)

/-- Cumulative sums of the values. -/
def cumVals [Add α] [Zero α] (t : Tab σ α) : List α :=
  (t.foldl (fun (acc : List α × α) r => (acc.1 ++ [acc.2 + r.2], acc.2 + r.2)) ([], 0)).1

end Dit
