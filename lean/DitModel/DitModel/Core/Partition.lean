/-
Information partitions and profiles (`dit.profiles`): the atoms of the I-diagram as entropy
combinations, the `covers` predicate of `ShannonPartition.__getitem__`, the complexity profile.
-/
import DitModel.Core.Info
namespace Dit

/-- Non-empty subsets of `{0..n-1}` (the atoms of the I-diagram), as sorted lists. -/
def atomSets (n : Nat) : List VSet :=
  ((sublists (List.range n)).filter (fun s => !s.isEmpty)).map vnorm

/-- The atom for the variable set `S`: the co-information of the variables of `S`
conditioned on all the others (`I[S | rest]`). -/
def atomC (n : Nat) (S : VSet) : Comb :=
  coinfoC (S.map (fun i => [i])) (vdiff (List.range n) S)

/-- `is_part` of `ShannonPartition.__getitem__`: the atom `S` is counted for the query
`(groups, crvs)` iff every group meets `S` and no conditioning variable is in `S`. -/
def covers (S : VSet) (groups : List VSet) (crvs : VSet) : Bool :=
  groups.all (fun g => g.any (fun v => S.contains v)) && crvs.all (fun c => !S.contains c)

/-- The value a partition returns for a query: the sum of the atoms it covers. -/
def queryC (n : Nat) (groups : List VSet) (crvs : VSet) : Comb :=
  Comb.sum (((atomSets n).filter (fun S => covers S groups crvs)).map (atomC n))

/-- Sum of all atoms. -/
def atomsTotalC (n : Nat) : Comb := Comb.sum ((atomSets n).map (atomC n))

/-- Complexity profile at scale `k`: the sum of the atoms shared by at least `k` variables. -/
def profileC (n k : Nat) : Comb :=
  Comb.sum (((atomSets n).filter (fun S => decide (k ≤ S.length))).map (atomC n))

/-- Sum of the marginal entropies. -/
def marginalsC (n : Nat) : Comb := (List.range n).map (fun i => ((1 : Rat), [i]))

end Dit
