/-
Auxiliary-variable optimisers (`dit.algorithms.optimization.BaseAuxVarOptimizer`): from an input
tensor over (compressed) variables and a parameter vector, build row-normalised channels for the
auxiliary variables and the joint by successive conditioning.  Tensors are tables keyed by index
tuples.
-/
import DitModel.Core.Table
import DitModel.Core.Info
namespace Dit

variable {α : Type}

/-- An auxiliary variable: its parent variables (positions in the joint built so far) and the
size of its alphabet. -/
structure AuxVar where
  bases : List Nat
  bound : Nat
  deriving Repr, DecidableEq

section
variable [BEq α] [Zero α] [One α] [Add α] [Mul α] [Div α]

/-- Row-major index of a tuple of parent values in a block of shape `shape`. -/
def flatIndex : List Nat → List Nat → Nat
  | [], _ => 0
  | _ :: _, [] => 0
  | _ :: ss, i :: is => i * (ss.foldl (· * ·) 1) + flatIndex ss is

/-- The channel of one auxiliary variable from its block of parameters (`shape` = sizes of the
parents, last axis of length `bound`): rows are normalised; a row of total zero becomes uniform
(`channel[isnan] = mask`). -/
def channelOf (ofNat : Nat → α) (shape : List Nat) (bound : Nat) (params : List α)
    (parents : List Nat) (k : Nat) : α :=
  let row := (List.range bound).map (fun j => params.getD (flatIndex shape parents * bound + j) 0)
  let tot := lsum row
  if tot == 0 then 1 / ofNat bound else row.getD k 0 / tot

/-- Extend a joint with one auxiliary variable drawn through `chan` from its parents. -/
def auxStep (joint : Tab (List Nat) α) (av : AuxVar) (chan : List Nat → Nat → α) : Tab (List Nat) α :=
  joint.flatMap (fun r => (List.range av.bound).map (fun k =>
    (r.1 ++ [k], r.2 * chan (project av.bases r.1) k)))

/-- Sizes of the blocks of parameters, in order. -/
def blockSize (sizes : List Nat) (av : AuxVar) : Nat :=
  (av.bases.map (fun b => sizes.getD b 0)).foldl (· * ·) 1 * av.bound

/-- `construct_joint(x)`: successive conditioning. `sizes` are the alphabet sizes of the variables
of the input tensor (they grow by each `bound`). -/
def constructJoint (ofNat : Nat → α) : List Nat → Tab (List Nat) α → List AuxVar → List α → Tab (List Nat) α
  | _, joint, [], _ => joint
  | sizes, joint, av :: rest, x =>
    let n := blockSize sizes av
    let shape := av.bases.map (fun b => sizes.getD b 0)
    let chan := channelOf ofNat shape av.bound (x.take n)
    constructJoint ofNat (sizes ++ [av.bound]) (auxStep joint av chan) rest (x.drop n)

/-- Sum out the last `k` variables. -/
def dropLastVars [DecidableEq (List Nat)] (k : Nat) (t : Tab (List Nat) α) : Tab (List Nat) α :=
  pushforward (fun o => o.take (o.length - k)) t

end
end Dit
