/-
Core table algebra of the dit model (import-free, executable).

A probability table is an insertion-ordered association list `List (κ × α)`:
the model of a Python `dict`/`defaultdict` whose iteration order is insertion
order.  All definitions are polymorphic in the number type `α` and only use the
core classes `Add`/`Zero`/..., so that the very same definitions are *run* by the
driver at `α := Rat` and *reasoned about* in `Lemmas/` and `Props/` over
Mathlib's algebraic hierarchy.
-/
namespace Dit

/-- Insertion-ordered finite map. -/
abbrev Tab (κ α : Type) := List (κ × α)

variable {κ κ' α : Type}

/-- `d[k] += v` on an insertion-ordered dict: add to the first row with key `k`,
or append a new row. (`coalesce`'s `defaultdict` followed by `add_reduce`.) -/
def accum [DecidableEq κ] [Add α] : Tab κ α → κ → α → Tab κ α
  | [], k, v => [(k, v)]
  | (k', v') :: t, k, v =>
      if k' = k then (k', v' + v) :: t else (k', v') :: accum t k v

/-- Push a table forward along `f`, merging collisions by addition, in order of
first appearance of the image. -/
def pushforward [DecidableEq κ'] [Add α] (f : κ → κ') (t : Tab κ α) : Tab κ' α :=
  t.foldl (fun acc r => accum acc (f r.1) r.2) []

/-- First stored value for `k`, if any (the `_outcomes_index` lookup). -/
def lookup? [DecidableEq κ] : Tab κ α → κ → Option α
  | [], _ => none
  | (k', v) :: t, k => if k' = k then some v else lookup? t k

/-- Stored value or the null value. -/
def lookupD [DecidableEq κ] (zero : α) (t : Tab κ α) (k : κ) : α :=
  (lookup? t k).getD zero

/-- Keys in stored order. -/
def keys (t : Tab κ α) : List κ := t.map (·.1)
/-- Values in stored order. -/
def vals (t : Tab κ α) : List α := t.map (·.2)

/-- Total mass (left-to-right sum, like a sequential reduction). -/
def mass [Add α] [Zero α] (t : Tab κ α) : α := t.foldl (fun s r => s + r.2) 0

/-- Sequential sum of a list. -/
def lsum [Add α] [Zero α] (l : List α) : α := l.foldl (· + ·) 0

/-- Select components `idx` of an outcome (out-of-range indices are dropped;
callers validate indices first, as `parse_rvs` does). -/
def project {σ : Type} (idx : List Nat) (o : List σ) : List σ :=
  idx.filterMap (fun i => o[i]?)

/-- Coalescing map: one inner outcome per group. -/
def projectGroups {σ : Type} (groups : List (List Nat)) (o : List σ) : List (List σ) :=
  groups.map (fun g => project g o)

/-- Index of the first occurrence of `x` in `l`. -/
def indexOf? [DecidableEq κ] : List κ → κ → Option Nat
  | [], _ => none
  | y :: t, x => if y = x then some 0 else (indexOf? t x).map (· + 1)

/-- Insert `r` into a list sorted by `rank` (stable: after equal ranks). -/
def insertBy (rank : κ → Nat) (r : κ × α) : Tab κ α → Tab κ α
  | [] => [r]
  | s :: t => if rank r.1 < rank s.1 then r :: s :: t else s :: insertBy rank r t

/-- Stable insertion sort of the rows by `rank` of their key: dit's `reorder`
(sort the stored outcomes by their index in the sample space). -/
def sortBy (rank : κ → Nat) (t : Tab κ α) : Tab κ α :=
  t.foldr (insertBy rank) []

/-- Lexicographic strict order on lists of naturals (Python's order on equal-length
tuples / strings of ranked symbols). -/
def lexLt : List Nat → List Nat → Bool
  | [], [] => false
  | [], _ :: _ => true
  | _ :: _, [] => false
  | a :: as, b :: bs => if a < b then true else if b < a then false else lexLt as bs

/-- Remove duplicates keeping first occurrences (an `OrderedDict` of keys). -/
def dedup [DecidableEq κ] : List κ → List κ
  | [] => []
  | x :: t => x :: (dedup t).filter (· ≠ x)

/-- Cartesian product of alphabets in `itertools.product` order. -/
def cartesian {σ : Type} : List (List σ) → List (List σ)
  | [] => [[]]
  | a :: rest => a.flatMap (fun x => (cartesian rest).map (x :: ·))

end Dit
