/-
Chernoff information (`dit.divergences.variational_distance.chernoff_information_pmf`) and lautum information
(`dit.other.lautum_information`): the objective the scalar minimiser works on, with NumPy's power conventions made
explicit, and the lautum value as a Kullback–Leibler divergence from the product of the marginals to the joint.
Import-free and executable.
-/
import DitModel.Core.Diverge
import DitModel.Core.Constructors
namespace Dit

variable {α : Type}

section
variable [BEq α] [Zero α] [One α] [Add α] [Sub α] [Mul α]

/-- NumPy's `x ** e` for `x ≥ 0`: `x**0 = 1` (also for `x = 0`), `0**e = 0` for `e > 0`. -/
def npPow (R : RealOps α) (x e : α) : α :=
  if e == 0 then 1 else if x == 0 then 0 else R.pow x e

/-- `(p**alpha * q**(1 - alpha)).sum()` over label-aligned pairs. -/
def chernoffSum (R : RealOps α) (a : α) (pq : List (α × α)) : α :=
  lsum (pq.map (fun r => npPow R r.1 a * npPow R r.2 (1 - a)))

/-- `func(alpha) = log2 Σ p^α q^{1−α}`; the Chernoff information is `−min_{α∈[0,1]} func(α)`. -/
def chernoffObj (R : RealOps α) (log2 : α → α) (a : α) (pq : List (α × α)) : α :=
  log2 (chernoffSum R a pq)

end

section
variable [DecidableEq α] [BEq α] [Zero α] [One α] [Add α] [Sub α] [Mul α] [Div α] [Neg α]

/-- Lautum information of two groups of a joint table: `D(P_X ⊗ P_Y ‖ P_XY)`; `none` = `+∞` (the product puts mass where
the joint has none). The product table is `productTabs` of the two marginals (Core/Constructors.lean); outcomes of the
pair are `x ++ y`. -/
def lautumVals {σ : Type} [DecidableEq σ] (log : α → α) (t : Tab (List σ) α) (X Y : List Nat) : Option α :=
  let mx := pushforward (project X) t
  let my := pushforward (project Y) t
  let prod : Tab (List σ) α := mx.flatMap (fun rx => my.map (fun ry => (rx.1 ++ ry.1, rx.2 * ry.2)))
  let joint := pushforward (fun o => project X o ++ project Y o) t
  klVals log (alignPair prod joint)

end
end Dit
