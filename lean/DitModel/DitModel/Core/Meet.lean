/-
Meet, join and minimal sufficient statistics of variable groups (`dit.algorithms.lattice`,
`dit.algorithms.minimal_sufficient_statistic`) as partitions of the list of outcomes of the
(pruned) sample space, and the labelling used by `insert_rv`.
-/
import DitModel.Core.Table
import DitModel.Core.Info
namespace Dit

variable {σ α : Type}

section
variable [DecidableEq σ]

/-- Two outcomes agree on the variables of group `g`. -/
def sameOn (g : List Nat) (o o' : List σ) : Bool := decide (project g o = project g o')

/-- Join relation: agree on every group (i.e. on the union of the groups). -/
def joinRel (groups : List (List Nat)) (o o' : List σ) : Bool := groups.all (fun g => sameOn g o o')

/-- One-step meet relation: agree on at least one group. -/
def linkRel (groups : List (List Nat)) (o o' : List σ) : Bool := groups.any (fun g => sameOn g o o')

/-- Grow a class: add every row linked to some member. -/
def growClass (link : List σ → List σ → Bool) (rows cls : List (List σ)) : List (List σ) :=
  rows.filter (fun o => cls.contains o || cls.any (fun c => link c o))

/-- Connected component of `o` under `link` among `rows` (closure by `rows.length` rounds). -/
def component (link : List σ → List σ → Bool) (rows : List (List σ)) (o : List σ) : List (List σ) :=
  (List.range rows.length).foldl (fun cls _ => growClass link rows cls) [o]

/-- Partition `rows` into classes, given the function returning the class of a row; classes in
order of first appearance. -/
def classesBy (classOf : List σ → List (List σ)) (rows : List (List σ)) : List (List (List σ)) :=
  rows.foldl (fun acc o => if acc.any (fun c => c.contains o) then acc else acc ++ [classOf o]) []

/-- Classes of the join of the groups. -/
def joinClasses (groups : List (List Nat)) (rows : List (List σ)) : List (List (List σ)) :=
  classesBy (fun o => rows.filter (fun o' => joinRel groups o o')) rows

/-- Classes of the meet of the groups: connected components of "agree on some group". -/
def meetClasses (groups : List (List Nat)) (rows : List (List σ)) : List (List (List σ)) :=
  classesBy (component (linkRel groups) rows) rows

/-- Label of an outcome: the index of its class. -/
def labelOf (classes : List (List (List σ))) (o : List σ) : Nat :=
  (classes.findIdx? (fun c => c.contains o)).getD classes.length

end

section
variable [DecidableEq σ] [DecidableEq α] [Add α] [Zero α] [Mul α] [Div α]

/-- Conditional law of the variables `about` given that the variables `rvs` take the values they
have in `o`, as a table keyed by the `about`-projection (values normalised by `P(x)`). -/
def condLawAt (t : Tab (List σ) α) (rvs about : List Nat) (o : List σ) : Tab (List σ) α :=
  let rows := t.filter (fun r => decide (project rvs r.1 = project rvs o))
  let px := lsum (rows.map (·.2))
  (pushforward (project about) rows).map (fun r => (r.1, r.2 / px))

/-- Two tables are the same function (order of rows irrelevant, exact equality of values). -/
def sameLaw (a b : Tab (List σ) α) : Bool :=
  a.all (fun r => decide (lookupD 0 b r.1 = r.2)) && b.all (fun r => decide (lookupD 0 a r.1 = r.2))

/-- Classes of the minimal sufficient statistic of `rvs` about `about`: outcomes whose
`rvs`-values have equal conditional laws of `about`. -/
def mssClasses (t : Tab (List σ) α) (rvs about : List Nat) : List (List (List σ)) :=
  let rows := keys t
  classesBy (fun o => rows.filter (fun o' => sameLaw (condLawAt t rvs about o) (condLawAt t rvs about o'))) rows

end
end Dit
