/-
The f-divergence `D_f(P‖Q) = Σ_x q(x) f(p(x)/q(x))` (`dit.divergences.f_divergence`) on a label-aligned list of
pairs `(p(x), q(x))` over the UNION of the two supports (`alignUnion`), with the textbook conventions made explicit:
a pair `(0, 0)` contributes nothing, a pair with `q = 0 < p` contributes `p · f'(∞)` where `f'(∞) = lim f(t)/t` is
supplied by the caller (`none` = `+∞`), and a pair with `p = 0 < q` contributes `q · f(0)`.

(The real function sums over the FIRST distribution's outcomes only and drops the `q = 0` terms: it agrees with this
definition when the supports are equal, and in the one-sided cases where the lost term vanishes — a recorded known
finding otherwise.)
-/
import DitModel.Core.Diverge
namespace Dit

variable {α : Type}

section
variable [BEq α] [Zero α] [Add α] [Mul α] [Div α]

/-- One term of the f-divergence; `none` = `+∞`. -/
def fdivTerm (f : α → α) (finf : Option α) (r : α × α) : Option α :=
  if r.2 == 0 then
    if r.1 == 0 then some 0 else finf.map (fun c => r.1 * c)
  else some (r.2 * f (r.1 / r.2))

/-- `D_f` over a list of aligned pairs; `none` = `+∞` (some pair has `q = 0 < p` and `f'(∞) = +∞`). -/
def fdivVals (f : α → α) (finf : Option α) (pq : List (α × α)) : Option α :=
  pq.foldl (fun acc r => match acc, fdivTerm f finf r with
                         | some a, some b => some (a + b)
                         | _, _ => none) (some 0)

end
end Dit
