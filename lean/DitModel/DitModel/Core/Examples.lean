/-
Example-distribution constructors of `dit.example_dists` as tables (C11).
Symbols are naturals; probabilities in any field-like number type (`ofNat` casts).
-/
import DitModel.Core.Table
import DitModel.Core.Info
import DitModel.Core.Constructors
namespace Dit

variable {α : Type}

section
variable [Add α] [Zero α] [One α] [Mul α] [Div α] [Sub α]

/-- All words of length `n` over `{0..k-1}` in `itertools.product` order. -/
def words (k n : Nat) : List (List Nat) := cartesian (List.replicate n (List.range k))

/-- `giant_bit(n, k)`: `k` outcomes `aa…a` of probability `1/k`. -/
def giantBit (ofNat : Nat → α) (n k : Nat) : Tab (List Nat) α :=
  (List.range k).map (fun a => (List.replicate n a, 1 / ofNat k))

/-- `n_mod_m(n, m)`: the last symbol is the sum of the first `n−1` modulo `m`; uniform. -/
def nModM (ofNat : Nat → α) (n m : Nat) : Tab (List Nat) α :=
  (words m (n - 1)).map (fun w => (w ++ [w.sum % m], 1 / ofNat (m ^ (n - 1))))

/-- `iid_sum(n, k)`: `n` iid uniform variables over `{0..k-1}` followed by their sum. -/
def iidSum (ofNat : Nat → α) (n k : Nat) : Tab (List Nat) α :=
  (words k n).map (fun w => (w ++ [w.sum], 1 / ofNat (k ^ n)))

/-- Logic gates on `k` uniform input bits followed by the gate's value. -/
def gateTab (ofNat : Nat → α) (g : List Nat → Nat) (k : Nat) : Tab (List Nat) α :=
  (words 2 k).map (fun w => (w ++ [g w], 1 / ofNat (2 ^ k)))

def xorGate (w : List Nat) : Nat := w.sum % 2
def andGate (w : List Nat) : Nat := if w.all (· == 1) then 1 else 0
def orGate (w : List Nat) : Nat := if w.any (· == 1) then 1 else 0

/-- `binomial(n, p)`: `k ↦ C(n,k) p^k (1−p)^(n−k)`, scalar outcomes `0..n`. -/
def binomialTab (ofNat : Nat → α) (n : Nat) (p : α) : Tab Nat α :=
  (List.range (n + 1)).map (fun k => (k, ofNat (choose n k) * npow p k * npow (1 - p) (n - k)))

/-- `hypergeometric(N, K, n)`: `k ↦ C(K,k) C(N−K, n−k) / C(N,n)` for `max(0, n+K−N) ≤ k ≤ min(K, n)`. -/
def hypergeometricTab (ofNat : Nat → α) (N K n : Nat) : Tab Nat α :=
  ((List.range (min K n + 1)).filter (fun k => decide (n + K ≤ N + k))).map (fun k =>
    (k, ofNat (choose K k * choose (N - K) (n - k)) / ofNat (choose N n)))

/-- `uniform(a, b)`: integers `a ≤ x < b` (as offsets from `a`), each `1/(b−a)`. -/
def uniformRange (ofNat : Nat → α) (width : Nat) : Tab Nat α :=
  (List.range width).map (fun x => (x, 1 / ofNat width))

/-- `summed_dice(a, b)`: two dice `(i, j)` with `P = a/36 + (1−a)[i=j]/6`, followed by `i + b·j`. -/
def summedDice (ofNat : Nat → α) (a : α) (b : Nat) : Tab (List Nat) α :=
  (cartesian [List.range' 1 6, List.range' 1 6]).map (fun o =>
    let i := o.getD 0 0
    let j := o.getD 1 0
    ([i, j, i + b * j], a / ofNat 36 + (1 - a) * (if i = j then 1 else 0) / ofNat 6))

/-- `uniform_binning(ts, bins)` on exact numbers with the code's slack `eps` in the denominator:
`⌊bins·(x − min)/(max − min + eps)⌋`, as the largest `k < bins` with `k·(range+eps) ≤ bins·(x−min)`. -/
def uniformBin [LE α] [DecidableLE α] (ofNat : Nat → α) (bins : Nat) (lo range eps x : α) : Nat :=
  (List.range bins).foldl (fun best k => if ofNat k * (range + eps) ≤ ofNat bins * (x - lo) then k else best) 0

end
end Dit
