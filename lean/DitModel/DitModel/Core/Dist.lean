/-
The distribution object of dit as a value: sample space, stored table, sparse flag,
base tag; its constructor (`Distribution.__init__` / `ScalarDistribution.__init__`
with `sort=True`) and its mutation API as a state machine.

Numbers are kept in the *linear* domain in every base ("formal logarithms": the
stored float `v` of a base-`b` distribution stands for `x = b^v`; the harness
converts).  What differs between the linear and the log operations objects is
captured by `Base`-dependent predicates (`isNull`, `normOK`, `rangeOK`) that are
parameters of the model (`NumCfg`), instantiated by the driver for `Rat`.
-/
import DitModel.Core.Table
namespace Dit

/-- Base tag: `linear`, or log with a base identified by a key the harness chooses
(the numeric base never enters the model: values are linear). `ltOne` records
whether the base is below one (then the null log-probability is `+inf`). -/
inductive Base where
  | linear
  | log (id : Nat)
  deriving DecidableEq, Repr

def Base.isLog : Base → Bool
  | .linear => false
  | .log _ => true

/-- Sample space: Cartesian product of per-variable alphabets, or an explicit list
of outcomes (order matters in both). Scalar sample spaces are explicit lists of
length-one outcomes. -/
inductive Space (σ : Type) where
  | cart (alphabets : List (List σ))
  | expl (outs : List (List σ))
  deriving Repr

variable {σ α : Type}

/-- Members of the sample space in its iteration order. -/
def Space.toList : Space σ → List (List σ)
  | .cart as => cartesian as
  | .expl os => os

/-- `construct_alphabets`: per position, symbols in order of first appearance. -/
def alphabetsOf [DecidableEq σ] (outs : List (List σ)) : List (List σ) :=
  match outs with
  | [] => []
  | o :: _ => (List.range o.length).map (fun i => dedup (outs.filterMap (fun x => x[i]?)))

/-- The `alphabet` attribute. -/
def Space.alphabets [DecidableEq σ] : Space σ → List (List σ)
  | .cart as => as
  | .expl os => alphabetsOf os

/-- Number-type configuration: what the operations object of a base contributes. -/
structure NumCfg (α : Type) where
  /-- `np.isclose(p, ops.zero)` -/
  isNull : Base → α → Bool
  /-- `np.isclose(total, ops.one)` -/
  normOK : Base → α → Bool
  /-- not (significantly) outside `[zero, one]` -/
  rangeOK : Base → α → Bool

/-- Errors of the public API, as the small enum the harness compares. -/
inductive Err where
  | invalidDistribution | invalidOutcome | invalidNormalization | invalidProbability
  | ditException
  deriving DecidableEq, Repr

/-- The distribution value. `tab` is `zip(outcomes, pmf)`. -/
structure Dist (σ α : Type) where
  space : Space σ
  tab : Tab (List σ) α
  sparse : Bool
  base : Base
  deriving Repr

/-- `o in sample_space`. -/
def Space.mem [DecidableEq σ] (s : Space σ) (o : List σ) : Bool := s.toList.contains o

/-- Sorting key of an outcome: its index in the sample space. -/
def Space.rank [DecidableEq σ] (s : Space σ) (o : List σ) : Nat :=
  (indexOf? s.toList o).getD s.toList.length

/-- `d[o]`: `none` models `InvalidOutcome`. -/
def Dist.get [DecidableEq σ] [Zero α] (d : Dist σ α) (o : List σ) : Option α :=
  if d.space.mem o then some (lookupD 0 d.tab o) else none

/-- `make_dense`. -/
def Dist.makeDense [DecidableEq σ] [Zero α] (d : Dist σ α) : Dist σ α :=
  { d with tab := d.space.toList.map (fun o => (o, lookupD 0 d.tab o)), sparse := false }

/-- `make_sparse(trim)`. -/
def Dist.makeSparse (cfg : NumCfg α) (d : Dist σ α) (trim : Bool) : Dist σ α :=
  { d with tab := if trim then d.tab.filter (fun r => !cfg.isNull d.base r.2) else d.tab,
           sparse := true }

/-- `d[o] = v` for `o` in the sample space. -/
def Dist.setIn [DecidableEq σ] (d : Dist σ α) (o : List σ) (v : α) : Dist σ α :=
  match lookup? d.tab o with
  | some _ => { d with tab := d.tab.map (fun r => if r.1 = o then (r.1, v) else r) }
  | none => { d with tab := sortBy d.space.rank (d.tab ++ [(o, v)]) }

/-- `del d[o]` for `o` in the sample space. -/
def Dist.delIn [DecidableEq σ] [Zero α] (d : Dist σ α) (o : List σ) : Dist σ α :=
  if d.sparse then { d with tab := d.tab.filter (fun r => r.1 ≠ o) }
  else { d with tab := d.tab.map (fun r => if r.1 = o then (r.1, 0) else r) }

/-- `normalize()`: returns the new state and the old total. -/
def Dist.normalize [Add α] [Zero α] [Mul α] [Inv α] (d : Dist σ α) : Dist σ α × α :=
  let z := lsum (vals d.tab)
  ({ d with tab := d.tab.map (fun r => (r.1, r.2 * z⁻¹)) }, z)

/-- `validate()` verdict. -/
def Dist.validate [DecidableEq σ] [Add α] [Zero α] (cfg : NumCfg α) (d : Dist σ α) : Option Err :=
  if !(keys d.tab).all d.space.mem then some .invalidOutcome
  else if !cfg.normOK d.base (lsum (vals d.tab)) then some .invalidNormalization
  else if !(vals d.tab).all (cfg.rangeOK d.base) then some .invalidProbability
  else none

/-- Operation alphabet of the mutation API (C09). -/
inductive Op (σ α : Type) where
  | set (o : List σ) (v : α)
  | del (o : List σ)
  | makeDense
  | makeSparse (trim : Bool)
  | normalize
  | setBase (b : Base)
  | copy
  deriving Repr

/-- Output of one operation. -/
inductive Out (α : Type) where
  | ok
  | err (e : Err)
  | val (v : α)
  deriving Repr

/-- One step of the machine. Illegal outcomes raise `InvalidOutcome` and leave the
state unchanged. `setBase` only changes the tag (values are kept in the linear
domain). `copy` returns an equal value. -/
def Dist.step [DecidableEq σ] [Add α] [Zero α] [Mul α] [Inv α] (cfg : NumCfg α)
    (d : Dist σ α) : Op σ α → Dist σ α × Out α
  | .set o v => if d.space.mem o then (d.setIn o v, .ok) else (d, .err .invalidOutcome)
  | .del o => if d.space.mem o then (d.delIn o, .ok) else (d, .err .invalidOutcome)
  | .makeDense => (d.makeDense, .ok)
  | .makeSparse t => (d.makeSparse cfg t, .ok)
  | .normalize => let r := d.normalize; (r.1, .val r.2)
  | .setBase b => ({ d with base := b }, .ok)
  | .copy => (d, .ok)

/-- Sample-space argument of the constructor. -/
inductive SpaceArg (σ : Type) where
  | none
  | list (outs : List (List σ))          -- a plain sequence: kept in the given order
  | sampleSpace (outs : List (List σ))   -- a `SampleSpace` object: sorted
  | cartesian (alphabets : List (List σ)) -- a `CartesianProduct` object: alphabets sorted
  deriving Repr

/-- Sort a list of outcomes / symbols with a strict order given as a Boolean `lt`
(insertion sort; stable). -/
def isort {β : Type} (lt : β → β → Bool) : List β → List β
  | [] => []
  | x :: t => ins x (isort lt t)
where ins (x : β) : List β → List β
  | [] => [x]
  | y :: t => if lt y x then y :: ins x t else x :: y :: t

/-- Do all outcomes have the length of the first one? -/
def sameLength (outs : List (List σ)) : Bool :=
  match outs with
  | [] => true
  | o :: t => t.all (fun x => x.length == o.length)

/-- The constructor with `sort=True`, `validate=True`.  `symLt` is the order on
symbols, `outLt` the order on outcomes (Python's `<`). -/
def construct [DecidableEq σ] [Add α] [Zero α] (cfg : NumCfg α)
    (symLt : σ → σ → Bool) (outLt : List σ → List σ → Bool)
    (outs : List (List σ)) (pmf : List α) (sp : SpaceArg σ) (base : Base)
    (sparse trim : Bool) : Except Err (Dist σ α) :=
  if pmf.length ≠ outs.length then .error .invalidDistribution
  else
  let noSpace := match sp with | .none => true | _ => false
  if outs.isEmpty && noSpace then .error .invalidDistribution
  else
  let ss := match sp with
    | .none => outs | .list l => l | .sampleSpace l => l | .cartesian _ => []
  let ragged := match sp with
    | .cartesian _ => false
    | _ => !sameLength ss
  if ragged then .error .ditException
  else
  let space : Space σ := match sp with
    | .none => .cart ((alphabetsOf outs).map (isort symLt))
    | .list l => .expl l
    | .sampleSpace l => .expl (isort outLt l)
    | .cartesian as => .cart (as.map (isort symLt))
  if !outs.all space.mem then .error .invalidOutcome
  else
  let d0 : Dist σ α := { space := space, tab := sortBy space.rank (outs.zip pmf),
                         sparse := sparse, base := base }
  let d := if sparse then d0.makeSparse cfg trim else d0.makeDense
  match d.validate cfg with
  | some e => .error e
  | none => .ok d

end Dit
