/-
The operations objects of `dit.math.ops` on log-probabilities, as formulas over a number
type with an exponential/logarithm pair passed in (`LogBase`): the driver instantiates it
with `Float`, the proofs with `Real` (`b^x`, `Real.logb b`).  The linear operations are the
field operations themselves.
-/
import DitModel.Core.Table
namespace Dit

variable {α : Type}

/-- A logarithm base `b`: `exp x = b^x`, `log x = log_b x`, plus base-2 helpers used by dit's
generic-base code path (`log2b = log₂ b`, `exp2`, `log2`). -/
structure LogBase (α : Type) where
  exp : α → α
  log : α → α
  exp2 : α → α
  log2 : α → α
  log2b : α      -- log₂ b
  logb2 : α      -- log_b 2

section
variable [Add α] [Zero α] [Mul α] [Sub α] [Neg α] [Div α]

/-- `LogOperations.add` on the direct code path (bases 2 and e): `log_b(b^x + b^y)`. -/
def logAdd (B : LogBase α) (x y : α) : α := B.log (B.exp x + B.exp y)

/-- `LogOperations.add` on the generic-base code path:
`logaddexp2(x·log₂b, y·log₂b) · log_b 2`. -/
def logAddGeneric (B : LogBase α) (x y : α) : α :=
  B.log2 (B.exp2 (x * B.log2b) + B.exp2 (y * B.log2b)) * B.logb2

/-- `add_reduce`: `log_b Σ b^{x_i}` (non-empty input; the empty sum is the null value). -/
def logAddReduce (B : LogBase α) (xs : List α) : α := B.log (lsum (xs.map B.exp))

/-- `mult`, `mult_reduce`, `invert`. -/
def logMul (x y : α) : α := x + y
def logMulReduce (xs : List α) : α := lsum xs
def logInv (x : α) : α := -x

/-- `normalize`: `x − add_reduce(x)`. -/
def logNormalize (B : LogBase α) (xs : List α) : List α := xs.map (· - logAddReduce B xs)

/-- `set_base` log→log: multiply by `log_c(b)`. -/
def rebaseLogLog (logc_b : α) (x : α) : α := x * logc_b

/-- Linear operations for comparison. -/
def linNormalize (xs : List α) : List α := xs.map (· / lsum xs)

end
end Dit
