/-
The capacity iteration of `dit.algorithms.channelcapacity.channel_capacity`, in the code's own order:
`r₀` uniform; repeat `q = next_q(p, r)`, `r = next_r(p, q)`, `cc = calc_cc(p, q, r)` until
`isclose(cc, old_cc, rtol, atol)` (with `old_cc = 0` before the first comparison).
`P` is the channel as a list of rows `P(y|x)`. Import-free and executable.
-/
import DitModel.Core.Channel
namespace Dit

variable {α : Type}

section
variable [BEq α] [Zero α] [One α] [Add α] [Sub α] [Mul α] [Div α] [Neg α] [LT α] [DecidableLT α]

/-- `next_q`: the posterior `q(x|y) = r_x P(y|x) / Σ_x' r_x' P(y|x')`, as a list over `y` of lists over `x`. -/
def capNextQ (r : List α) (P : List (List α)) : List (List α) :=
  let qy := outputLaw r P
  (List.range qy.length).map (fun y =>
    List.zipWith (fun rx px => rx * px.getD y 0 / qy.getD y 0) r P)

/-- `next_r`: `r_x ∝ Π_y q(x|y)^{P(y|x)}`, written as `exp2 Σ_y P(y|x) log2 q(x|y)` (a factor with exponent 0 is 1). -/
def capNextR (log2 exp2 : α → α) (P : List (List α)) (q : List (List α)) : List α :=
  let w := (List.range P.length).map (fun x =>
    let px := P.getD x []
    exp2 (lsum ((List.range px.length).map (fun y =>
      let pxy := px.getD y 0
      if pxy == 0 then 0 else pxy * log2 ((q.getD y []).getD x 0)))))
  w.map (· / lsum w)

/-- `calc_cc`: `Σ_{x,y} r_x P(y|x) log2 (q(x|y) / r_x)` over the terms that are defined (`nansum`). -/
def capCC (log2 : α → α) (P : List (List α)) (q : List (List α)) (r : List α) : α :=
  lsum ((List.range P.length).map (fun x =>
    let px := P.getD x []
    let rx := r.getD x 0
    lsum ((List.range px.length).map (fun y =>
      let pxy := px.getD y 0
      if rx * pxy == 0 then 0 else rx * pxy * log2 ((q.getD y []).getD x 0 / rx)))))

/-- One pass of the generator `next_cc`. -/
def capStep (log2 exp2 : α → α) (P : List (List α)) (r : List α) : α × List α :=
  let q := capNextQ r P
  let r' := capNextR log2 exp2 P q
  (capCC log2 P q r', r')

/-- The loop with the stopping rule; returns the value, the input law and the number of passes (≥ 1). -/
def capLoop (log2 exp2 : α → α) (P : List (List α)) (close : α → α → Bool) :
    Nat → α → α → List α → Nat → α × List α × Nat
  | 0, _, cc, r, it => (cc, r, it)
  | fuel + 1, old, cc, r, it =>
    if close cc old then (cc, r, it)
    else
      let (cc', r') := capStep log2 exp2 P r
      capLoop log2 exp2 P close fuel cc cc' r' (it + 1)

/-- `channel_capacity(P)` on an array. `ofNat` casts the number of input letters for the uniform start. -/
def capRun (log2 exp2 : α → α) (ofNat : Nat → α) (P : List (List α)) (close : α → α → Bool) (fuel : Nat) :
    α × List α × Nat :=
  let n := P.length
  let r0 := List.replicate n (1 / ofNat n)
  let (cc, r) := capStep log2 exp2 P r0
  capLoop log2 exp2 P close fuel 0 cc r 1

end
end Dit
