/-
Weak compositions (`dit.math.combinatorics.slots`) and the simplex grid.
-/
import DitModel.Core.Table
namespace Dit

/-- All ways of putting `n` indistinguishable items into `k` slots, in lexicographic
order: `slots(3,2) = [(0,3),(1,2),(2,1),(3,0)]`. -/
def slots : Nat → Nat → List (List Nat)
  | 0, 0 => [[]]
  | _ + 1, 0 => []
  | n, k + 1 => (List.range (n + 1)).flatMap (fun i => (slots (n - i) k).map (i :: ·))

/-- Grid points of `simplex_grid(length, subdivisions)`: compositions of `subdivisions`
into `length` parts (numerators; the real code divides by `subdivisions`). -/
def simplexGrid (length subdivisions : Nat) : List (List Nat) :=
  slots subdivisions length

end Dit
