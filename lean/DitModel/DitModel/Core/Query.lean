/-
Queries on top of the mutation machine (C10): a query reads the state and returns a value; the
library-wide configuration is a component of the state that queries may read but not write.
-/
import DitModel.Core.Dist
namespace Dit

variable {σ α : Type}

/-- Global configuration (`ditParams`: default base, print options, tolerances …) as an opaque
finite map from keys to values. -/
abbrev Config := List (String × String)

/-- The state seen by a sequence of calls: the argument distribution and the configuration. -/
structure World (σ α : Type) where
  dist : Dist σ α
  config : Config

/-- A call is either a mutation of the distribution or a query `q` of result type `β`. -/
inductive Call (σ α β : Type) where
  | mutate (op : Op σ α)
  | query (q : Dist σ α → Config → β)

/-- Result of a call. -/
inductive Res (α β : Type) where
  | out (o : Out α)
  | val (v : β)

/-- One call. Queries return a value computed from the state and leave the state as it is. -/
def World.call [DecidableEq σ] [Add α] [Zero α] [Mul α] [Inv α] (cfg : NumCfg α)
    (w : World σ α) {β : Type} : Call σ α β → World σ α × Res α β
  | .mutate op => let r := w.dist.step cfg op; ({ w with dist := r.1 }, .out r.2)
  | .query q => (w, .val (q w.dist w.config))

/-- Run a list of calls, collecting results. -/
def World.run [DecidableEq σ] [Add α] [Zero α] [Mul α] [Inv α] (cfg : NumCfg α) {β : Type}
    (w : World σ α) : List (Call σ α β) → World σ α × List (Res α β)
  | [] => (w, [])
  | c :: cs =>
    let r := w.call cfg c
    let rest := World.run cfg r.1 cs
    (rest.1, r.2 :: rest.2)

def Call.isQuery {β : Type} : Call σ α β → Bool
  | .query _ => true
  | .mutate _ => false

end Dit
