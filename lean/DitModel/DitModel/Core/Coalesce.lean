/-
Marginal / marginalize / coalesce / condition_on / joint_from_factors on the
distribution value.
-/
import DitModel.Core.Dist
namespace Dit

variable {σ α : Type}

/-- `parse_rvs` in index mode: validity of indices, optional uniqueness, optional
sorting. `n` is the outcome length. Name resolution is `resolveNames`. -/
def parseIdx (n : Nat) (rvs : List Nat) (unique sort : Bool) : Except Err (List Nat) :=
  if rvs.isEmpty then .ok []
  else if unique && (dedup rvs).length ≠ rvs.length then .error .ditException
  else if !rvs.all (· < n) then .error .ditException
  else .ok (if sort then isort (fun a b => decide (a < b)) rvs else rvs)

/-- Names to indices (`dist._rvs[name]`); unknown names are an error. -/
def resolveNames {ν : Type} [DecidableEq ν] (names : List ν) (rvs : List ν) :
    Except Err (List Nat) :=
  let idx := rvs.filterMap (fun r => indexOf? names r)
  if idx.length ≠ rvs.length then .error .ditException else .ok idx

/-- Sample space of a coalescing with several groups (symbols of the new space are
inner outcomes). Cartesian: product of the per-group products of member alphabets.
Explicit: the image of the space, duplicate-free, sorted. -/
def Space.coalesce [DecidableEq σ] (outLt : List (List σ) → List (List σ) → Bool)
    (s : Space σ) (groups : List (List Nat)) : Space (List σ) :=
  match s with
  | .cart as => .cart (groups.map (fun g => cartesian (g.filterMap (fun i => as[i]?))))
  | .expl os => .expl (isort outLt (dedup (os.map (projectGroups groups))))

/-- Sample space of a one-group coalescing with `extract=True`. -/
def Space.extract [DecidableEq σ] (outLt : List σ → List σ → Bool)
    (s : Space σ) (g : List Nat) : Space σ :=
  match s with
  | .cart as => .cart (g.filterMap (fun i => as[i]?))
  | .expl os => .expl (isort outLt (dedup (os.map (project g))))

/-- `coalesce(groups)` (no extract). The constructor call inside runs
`make_sparse(trim=True)` when the source is sparse, `make_dense` otherwise. -/
def Dist.coalesce [DecidableEq σ] [Add α] [Zero α] (cfg : NumCfg α)
    (outLt : List (List σ) → List (List σ) → Bool)
    (d : Dist σ α) (groups : List (List Nat)) : Dist (List σ) α :=
  let sp := d.space.coalesce outLt groups
  let t := sortBy sp.rank (pushforward (projectGroups groups) d.tab)
  let d' : Dist (List σ) α := { space := sp, tab := t, sparse := d.sparse, base := d.base }
  if d.sparse then d'.makeSparse cfg true else d'.makeDense

/-- `coalesce([g], extract=True)`. With `sparse` the constructor's `make_sparse(trim=True)`
runs, so null entries are dropped. -/
def Dist.coalesce1 [DecidableEq σ] [Add α] [Zero α] (cfg : NumCfg α)
    (outLt : List σ → List σ → Bool)
    (d : Dist σ α) (g : List Nat) : Dist σ α :=
  let sp := d.space.extract outLt g
  let t := sortBy sp.rank (pushforward (project g) d.tab)
  let d' : Dist σ α := { space := sp, tab := t, sparse := d.sparse, base := d.base }
  if d.sparse then d'.makeSparse cfg true else d'.makeDense

/-- `marginal(idx)` for already parsed, sorted, unique indices. -/
def Dist.marginal [DecidableEq σ] [Add α] [Zero α] (cfg : NumCfg α)
    (outLt : List σ → List σ → Bool) (d : Dist σ α) (idx : List Nat) : Dist σ α :=
  d.coalesce1 cfg outLt idx

/-- Complement of `idx` in `range n`. -/
def complIdx (n : Nat) (idx : List Nat) : List Nat :=
  (List.range n).filter (fun i => !idx.contains i)

/-- `marginalize(idx)`. -/
def Dist.marginalize [DecidableEq σ] [Add α] [Zero α] (cfg : NumCfg α)
    (outLt : List σ → List σ → Bool) (d : Dist σ α) (n : Nat) (idx : List Nat) : Dist σ α :=
  d.marginal cfg outLt (complIdx n idx)

/-- Names kept by a marginal. -/
def marginalNames {ν : Type} (names : List ν) (idx : List Nat) : List ν :=
  idx.filterMap (fun i => names[i]?)

/-- Mask of a marginal: `True` for dropped variables. -/
def marginalMask (n : Nat) (idx : List Nat) : List Bool :=
  (List.range n).map (fun i => !idx.contains i)

/-- Result of `condition_on`: the marginal on the conditioning variables and one
conditional table per stored outcome of that marginal, in order. -/
structure Cond (σ α : Type) where
  cdist : Dist σ α
  conds : List (Dist σ α)

/-- `condition_on(cidx, idx)` for parsed, sorted, disjoint index lists.
`n` is the outcome length. -/
def Dist.conditionOn [DecidableEq σ] [Add α] [Zero α] [Mul α] [Inv α] (cfg : NumCfg α)
    (outLt : List σ → List σ → Bool) (d : Dist σ α) (cidx idx : List Nat) : Cond σ α :=
  let sparse := d.sparse
  -- `d.make_sparse()` on the (copy of / marginal of) the source
  let ds := d.makeSparse cfg true
  let cdist := ds.marginal cfg outLt cidx
  let rdist := ds.marginal cfg outLt idx
  let conds := cdist.tab.map (fun c =>
    -- row of the conditional table for conditioning outcome `c.1`
    let rows := ds.tab.filter (fun r => project cidx r.1 = c.1)
    let t := pushforward (project idx) (rows.map (fun r => (r.1, r.2 * c.2⁻¹)))
    -- dense over the stored outcomes of `rdist`, then sparse/trim or dense per the flag
    let full : Tab (List σ) α := rdist.tab.map (fun r => (r.1, lookupD 0 t r.1))
    let dd : Dist σ α := { space := rdist.space, tab := full, sparse := sparse, base := d.base }
    if sparse then dd.makeSparse cfg true else dd.makeDense)
  { cdist := cdist, conds := conds }

/-- Interleave an outcome of the conditioning variables `x` and of the kept
variables `y` according to the kept-variables' mask (`True` = position belongs to `x`). -/
def interleave : List Bool → List σ → List σ → List σ
  | [], _, _ => []
  | true :: m, x :: xs, ys => x :: interleave m xs ys
  | true :: m, [], ys => interleave m [] ys
  | false :: m, xs, y :: ys => y :: interleave m xs ys
  | false :: m, xs, [] => interleave m xs []

/-- `joint_from_factors(mdist, cdists)` with complementary masks: the table of
`P(x) P(y|x)` on interleaved outcomes (before the constructor sorts it). -/
def jointFromFactors [Mul α] (mask : List Bool) (m : Tab (List σ) α)
    (cs : List (Tab (List σ) α)) : Tab (List σ) α :=
  (m.zip cs).flatMap (fun mc => mc.2.map (fun r => (interleave mask mc.1.1 r.1, mc.1.2 * r.2)))

end Dit
