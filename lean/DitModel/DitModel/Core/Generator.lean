/-
A pseudo-random generator as a state machine, and draws from a distribution with it: the model of
`d.rand(size=n, prng=g)` / `dit.math.sample(d, size=n, prng=g)` — `prng.rand(n)` takes the generator's next `n`
uniforms, in order, and the inverse-CDF scan is applied to each of them.  The generator itself (`next`) is a
parameter: nothing is assumed about it.
-/
import DitModel.Core.Sampling
namespace Dit

variable {α S : Type}

/-- The next `n` uniforms of the generator and the state it is left in. -/
def drawN (next : S → α × S) : Nat → S → List α × S
  | 0, s => ([], s)
  | n + 1, s =>
      let r := next s
      let rest := drawN next n r.2
      (r.1 :: rest.1, rest.2)

/-- `rand(size = n, prng = g)`: indices selected by the generator's next `n` uniforms, and the new state. -/
def randN [Add α] [Zero α] [LT α] [DecidableLT α] (next : S → α × S) (pmf : List α) (n : Nat) (s : S) :
    List (Option Nat) × S :=
  let r := drawN next n s
  (sampleMany pmf r.1, r.2)

/-- Sampling a log distribution: the stored values are exponentiated first (`ops.exp`), then scanned. -/
def sampleIdxLog [Add α] [Zero α] [LT α] [DecidableLT α] (exp : α → α) (logpmf : List α) (u : α) : Option Nat :=
  sampleIdx (logpmf.map exp) u

end Dit
