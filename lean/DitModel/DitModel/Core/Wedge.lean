/-
The Griffith et al. redundancy `I_∧` (`dit.pid.PID_GK`): the mutual information between the target and the
Gács–Körner meet of the sources of a node, the meet being taken on the support (`PID_GK._measure` drops stored
zero-probability outcomes, uses the remaining outcomes as the sample space, calls `insert_meet` and returns
`I(meet : target)`).
-/
import DitModel.Core.Meet
import DitModel.Core.Lattice
import DitModel.Core.Constructors
namespace Dit

section
variable {σ α : Type} [DecidableEq σ] [BEq α] [Zero α] [Add α] [Sub α] [Mul α] [Div α] [Neg α]
  [LT α] [DecidableLT α]

/-- The stored rows of non-zero value (`make_sparse`). -/
def supportTab (t : Tab (List σ) α) : Tab (List σ) α := t.filter (fun r => !(r.2 == 0))

/-- The support table with the label of the meet of the node's source sets appended as a new last variable
(`insert_meet(d, -1, sources)`); `code` turns a class index into a symbol. -/
def withMeet (code : Nat → σ) (t : Tab (List σ) α) (node : RNode) : Tab (List σ) α :=
  let ts := supportTab t
  insertRvf (fun o => [code (labelOf (meetClasses node (keys ts)) o)]) none ts

/-- `I_∧(node) = I(meet(node) : T)`; `n` is the number of variables of `t` (the position of the new one). -/
def iwedge (log : α → α) (code : Nat → σ) (t : Tab (List σ) α) (n : Nat) (T : VSet) (node : RNode) : α :=
  miOf log (withMeet code t node) [n] T

end
end Dit
