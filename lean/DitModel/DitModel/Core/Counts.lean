/-
Sliding-window word counts: the model of `dit.inference.counts`.
-/
import DitModel.Core.Table
namespace Dit

variable {σ : Type}

/-- All contiguous windows of length `L` (boltons `windowed_iter`). For `L = 0`
boltons yields nothing useful; callers require `1 ≤ L`. -/
def windows (L : Nat) : List σ → List (List σ)
  | [] => []
  | x :: xs => if L ≤ (x :: xs).length then (x :: xs).take L :: windows L xs else []

/-- `Counter(windows)`: insertion-ordered counts. -/
def countWords [DecidableEq σ] (ws : List (List σ)) : Tab (List σ) Nat :=
  pushforward (fun w => w) (ws.map (fun w => (w, 1)))

/-- Word counts of all length-`L` windows of the data. -/
def wordCounts [DecidableEq σ] (L : Nat) (data : List σ) : Tab (List σ) Nat :=
  countWords (windows L data)

/-- Conditional counts: for each word, split at `h` into (history, future). -/
def condCounts [DecidableEq σ] (h : Nat) (wc : Tab (List σ) Nat) : Tab (List σ × List σ) Nat :=
  wc.map (fun r => ((r.1.take h, r.1.drop h), r.2))

/-- History counts obtained by summing conditional counts over futures. -/
def histCounts [DecidableEq σ] (h : Nat) (wc : Tab (List σ) Nat) : Tab (List σ) Nat :=
  pushforward (fun w => w.take h) wc

end Dit
