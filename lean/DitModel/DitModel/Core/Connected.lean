/-
`dit.profiles.schneidman.ConnectedInformations`: the profile is `{k ↦ H(P_{k−1}) − H(P_k)}`, `k = 1..n`, for the chain
`P_0 (uniform), P_1 (product of marginals), …, P_n = d` returned by `marginal_maxent_dists` (`-np.diff` of the
entropies). Import-free and executable.
-/
import DitModel.Core.Maxent
namespace Dit

variable {α : Type}

/-- `-np.diff(hs)`: `[h₀ − h₁, h₁ − h₂, …]`. -/
def negDiffs [Sub α] : List α → List α
  | a :: b :: t => (a - b) :: negDiffs (b :: t)
  | _ => []

/-- The connected informations of a chain of tables, given an entropy functional. -/
def connectedProfile {κ : Type} [Sub α] (H : Tab κ α → α) (chain : List (Tab κ α)) : List α :=
  negDiffs (chain.map H)

/-- All subsets of `{0..n-1}` of size `k`, as sorted index lists (`itertools.combinations(range(n), k)`;
`combos` is in Core/Info.lean). -/
def kWayGroups (n k : Nat) : List (List Nat) := combos k (List.range n)

end Dit
