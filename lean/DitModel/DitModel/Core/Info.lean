/-
Information measures of the model.

* `plogp`, `entropyVals`: Shannon entropy of a list of probabilities with a `log`
  function passed as a parameter (zeros contribute nothing) — run by the driver with
  `Float.log2`, reasoned about with `Real.logb 2`.
* `entropyOf`: entropy of the marginal of a table on a set of variables.
* `Comb`: formal rational combinations of subset entropies, and every multivariate
  measure of `dit.multivariate` as such a combination ("entropy-combination
  definitions"), mirroring the Python term by term.
-/
import DitModel.Core.Table
import DitModel.Core.Dist
namespace Dit

variable {α : Type}

/-- `p log p` with the convention `0 log 0 = 0`. -/
def plogp [BEq α] [Zero α] [Mul α] (log : α → α) (p : α) : α :=
  if p == 0 then 0 else p * log p

/-- `-Σ p log p` over a list of values (sequential sum). -/
def entropyVals [BEq α] [Zero α] [Add α] [Mul α] [Neg α] (log : α → α) (ps : List α) : α :=
  -(lsum (ps.map (plogp log)))

/-- Entropy of the marginal of table `t` on variables `X`. -/
def entropyOf {σ : Type} [DecidableEq σ] [BEq α] [Zero α] [Add α] [Mul α] [Neg α]
    (log : α → α) (t : Tab (List σ) α) (X : List Nat) : α :=
  entropyVals log (vals (pushforward (project X) t))

/-! ### Variable sets and entropy combinations -/

/-- Sets of variable indices as sorted duplicate-free lists. -/
abbrev VSet := List Nat

def vnorm (a : List Nat) : VSet := isort (fun x y => decide (x < y)) (dedup a)
def vunion (a b : VSet) : VSet := vnorm (a ++ b)
def vunions (l : List VSet) : VSet := vnorm l.flatten
def vdiff (a b : VSet) : VSet := a.filter (fun x => !b.contains x)
def vsubset (a b : VSet) : Bool := a.all b.contains

/-- Formal combination `Σ qᵢ · H(Sᵢ)`. -/
abbrev Comb := List (Rat × VSet)

def Comb.scale (q : Rat) (c : Comb) : Comb := c.map (fun r => (q * r.1, r.2))
def Comb.add (a b : Comb) : Comb := a ++ b
def Comb.sum (l : List Comb) : Comb := l.flatten

/-- Evaluate a combination with a set function `H` and a cast of the coefficients. -/
def Comb.eval [Zero α] [Add α] [Mul α] (cast : Rat → α) (H : VSet → α) (c : Comb) : α :=
  lsum (c.map (fun r => cast r.1 * H r.2))

/-- Canonical form: merge equal sets, drop zero coefficients and the empty set
(whose entropy is 0), sort by set. -/
def Comb.canon (c : Comb) : Comb :=
  let merged : Tab VSet Rat := pushforward (fun s => s) (c.map (fun r => (vnorm r.2, r.1)))
  let nz := merged.filter (fun r => r.2 ≠ 0 && !r.1.isEmpty)
  (isort (fun a b => lexLt a.1 b.1) nz).map (fun r => (r.2, r.1))

/-- `H(X | Z) = H(X ∪ Z) − H(Z)`, with dit's shortcut `X ⊆ Z ⇒ 0`
(`dit.shannon.conditional_entropy`). -/
def condH (X Z : VSet) : Comb :=
  if vsubset (vnorm X) (vnorm Z) then [] else [((1 : Rat), vunion X Z), (-1, vnorm Z)]

/-- All sublists (the `powerset` of dit.utils, order irrelevant for sums). -/
def sublists {β : Type} : List β → List (List β)
  | [] => [[]]
  | x :: t => let r := sublists t; r ++ r.map (x :: ·)

/-- `k`-element sublists (`itertools.combinations`). -/
def combos {β : Type} : Nat → List β → List (List β)
  | 0, _ => [[]]
  | _ + 1, [] => []
  | k + 1, x :: t => (combos k t).map (x :: ·) ++ combos (k + 1) t

/-- Co-information: `Σ_{Xs ⊆ groups} (−1)^{|Xs|+1} H(⋃Xs | Z)`. -/
def coinfoC (groups : List VSet) (Z : VSet) : Comb :=
  Comb.sum ((sublists groups).map (fun Xs =>
    Comb.scale (if Xs.length % 2 = 1 then 1 else -1) (condH (vunions Xs) Z)))

/-- Interaction information: `(−1)^{n} ·` co-information. -/
def interactionC (groups : List VSet) (Z : VSet) : Comb :=
  Comb.scale (if groups.length % 2 = 0 then 1 else -1) (coinfoC groups Z)

/-- Total correlation: `Σ H(Xᵢ|Z) − H(⋃X | Z)`. -/
def tcC (groups : List VSet) (Z : VSet) : Comb :=
  Comb.sum (groups.map (fun g => condH g Z)) ++ Comb.scale (-1) (condH (vunions groups) Z)

/-- Residual entropy: `Σ H(Xᵢ | (⋃X \ Xᵢ) ∪ Z)`. -/
def residualC (groups : List VSet) (Z : VSet) : Comb :=
  Comb.sum (groups.map (fun g => condH g (vunion (vdiff (vunions groups) (vnorm g)) Z)))

/-- Dual total correlation: `H(⋃X | Z) − residual`. -/
def dtcC (groups : List VSet) (Z : VSet) : Comb :=
  condH (vunions groups) Z ++ Comb.scale (-1) (residualC groups Z)

/-- O-information: `T − B`. -/
def oinfoC (groups : List VSet) (Z : VSet) : Comb :=
  tcC groups Z ++ Comb.scale (-1) (dtcC groups Z)

def choose : Nat → Nat → Nat
  | _, 0 => 1
  | 0, _ + 1 => 0
  | n + 1, k + 1 => choose n k + choose n (k + 1)

/-- TSE complexity: `Σ_{k=1}^{N-1} ( mean_{|S|=k} H(X_S|Z) − (k/N) H(X|Z) )`. -/
def tseC (groups : List VSet) (Z : VSet) : Comb :=
  let N := groups.length
  Comb.sum ((List.range N).tail.map (fun k =>
    Comb.scale (1 / (choose N k : Rat))
      (Comb.sum ((combos k groups).map (fun S => condH (vunions S) Z)))
    ++ Comb.scale (-(k : Rat) / (N : Rat)) (condH (vunions groups) Z)))

/-- Cohesion of order `k`: `Σ_{|S|=k} H(X_S|Z) − C(N−1, k−1) · H(X|Z)`. -/
def cohesionC (k : Nat) (groups : List VSet) (Z : VSet) : Comb :=
  Comb.sum ((combos k groups).map (fun S => condH (vunions S) Z))
  ++ Comb.scale (-(choose (groups.length - 1) (k - 1) : Rat)) (condH (vunions groups) Z)

/-- All set partitions of a list (blocks in order of first element). -/
def setPartitions {β : Type} : List β → List (List (List β))
  | [] => [[]]
  | x :: t =>
    (setPartitions t).flatMap (fun p =>
      ([x] :: p) :: (List.range p.length).map (fun i => p.modify i (x :: ·)))

/-- CAEKL candidate for a partition `P` of the groups:
`(Σ_{B∈P} H(⋃B | Z) − H(⋃X | Z)) / (|P| − 1)`. -/
def caeklCand (groups : List VSet) (Z : VSet) (P : List (List VSet)) : Comb :=
  Comb.scale (1 / ((P.length : Rat) - 1))
    (Comb.sum (P.map (fun B => condH (vunions B) Z)) ++ Comb.scale (-1) (condH (vunions groups) Z))

/-- The candidate combinations over all partitions with at least two blocks; the
CAEKL mutual information is the minimum of their values. -/
def caeklCands (groups : List VSet) (Z : VSet) : List Comb :=
  ((setPartitions groups).filter (fun P => decide (1 < P.length))).map (caeklCand groups Z)

/-- Conditional mutual information `I(X:Y|Z)` as a combination. -/
def cmiC (X Y Z : VSet) : Comb :=
  condH X Z ++ condH Y Z ++ Comb.scale (-1) (condH (vunion X Y) Z)

end Dit

namespace Dit

variable {α : Type}

/-- The transcendental operations a number type must provide for the entropy family:
`log` (base 2), `pow x a = x^a`, the cast of naturals, and `log₂ e`. -/
structure RealOps (α : Type) where
  log : α → α
  pow : α → α → α
  ofNat : Nat → α
  log2e : α

/-- Order of a Rényi entropy: a finite real order or `∞`. -/
inductive ROrder (α : Type) where
  | fin (a : α)
  | inf
  deriving Repr

/-- Number of non-null entries (the support size). -/
def supportSize [BEq α] [Zero α] (ps : List α) : Nat := (ps.filter (fun p => !(p == 0))).length

/-- Maximum of a list (0 for the empty list). -/
def lmax [Zero α] [LT α] [DecidableLT α] (ps : List α) : α :=
  ps.foldl (fun m p => if m < p then p else m) 0

/-- Rényi entropy of order `a` of a list of probabilities (bits):
order 0: `log₂ |support|`; order 1: Shannon; order ∞: `−log₂ max p`; otherwise
`(1/(1−a)) log₂ Σ pᵃ` over the support. -/
def renyiVals [BEq α] [Zero α] [One α] [Add α] [Sub α] [Mul α] [Div α] [Neg α] [LT α] [DecidableLT α]
    (R : RealOps α) (ord : ROrder α) (ps : List α) : α :=
  match ord with
  | .inf => -(R.log (lmax ps))
  | .fin a =>
    if a == 0 then R.log (R.ofNat (supportSize ps))
    else if a == 1 then entropyVals R.log ps
    else (1 / (1 - a)) * R.log (lsum ((ps.filter (fun p => !(p == 0))).map (fun p => R.pow p a)))

/-- Tsallis entropy of order `q`: order 1: Shannon entropy in nats; otherwise
`(1/(q−1)) (1 − Σ p^q)` over the support. -/
def tsallisVals [BEq α] [Zero α] [One α] [Add α] [Sub α] [Mul α] [Div α] [Neg α]
    (R : RealOps α) (q : α) (ps : List α) : α :=
  if q == 1 then entropyVals R.log ps / R.log2e
  else (1 / (q - 1)) * (1 - lsum ((ps.filter (fun p => !(p == 0))).map (fun p => R.pow p q)))

/-- Extropy `−Σ (1−p) log₂ (1−p)`. -/
def extropyVals [BEq α] [Zero α] [One α] [Add α] [Sub α] [Mul α] [Neg α]
    (log : α → α) (ps : List α) : α :=
  entropyVals log (ps.map (fun p => 1 - p))

/-- Perplexity `2^H`. -/
def perplexityVals [BEq α] [Zero α] [Add α] [Mul α] [Neg α]
    (R : RealOps α) (two : α) (ps : List α) : α :=
  R.pow two (entropyVals R.log ps)

end Dit
