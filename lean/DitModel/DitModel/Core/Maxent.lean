/-
Maximum-entropy distributions with prescribed marginals (`dit.algorithms.maxent_dist`):
feasibility residual, iterative proportional fitting (the reference fixed point), and the
product form that certifies optimality.
-/
import DitModel.Core.Table
import DitModel.Core.Info
namespace Dit

variable {σ α : Type}

section
variable [DecidableEq σ] [BEq α] [Zero α] [One α] [Add α] [Sub α] [Mul α] [Div α] [Neg α]
  [LT α] [DecidableLT α]

/-- Marginal of a table on the variables `g`, looked up at a projected outcome. -/
def margAt (t : Tab (List σ) α) (g : List Nat) (x : List σ) : α :=
  lookupD 0 (pushforward (project g) t) x

def absDiff (a b : α) : α := if a < b then b - a else a - b

/-- Largest absolute difference between the `g`-marginals of `t` and `q`, over the projected
outcomes of either table, maximised over the constraint groups. -/
def marginalResidual (t q : Tab (List σ) α) (groups : List (List Nat)) : α :=
  groups.foldl (fun m g =>
    let xs := dedup ((keys t ++ keys q).map (project g))
    xs.foldl (fun m' x => let dlt := absDiff (margAt t g x) (margAt q g x); if m' < dlt then dlt else m') m) 0

/-- One IPF step: rescale `q` so that its `g`-marginal becomes that of the target `t`:
`q'(o) = q(o) · P_t(o_g) / P_q(o_g)` (rows whose `g`-marginal under `q` is 0 stay 0). -/
def ipfStep (t q : Tab (List σ) α) (g : List Nat) : Tab (List σ) α :=
  q.map (fun r =>
    let mq := margAt q g (project g r.1)
    (r.1, if mq == 0 then 0 else r.2 * margAt t g (project g r.1) / mq))

/-- One sweep over all constraint groups. -/
def ipfSweep (t q : Tab (List σ) α) (groups : List (List Nat)) : Tab (List σ) α :=
  groups.foldl (fun q' g => ipfStep t q' g) q

/-- `n` sweeps of IPF started from `q0` (the uniform table on the sample space). -/
def ipf (t : Tab (List σ) α) (groups : List (List Nat)) (q0 : Tab (List σ) α) : Nat → Tab (List σ) α
  | 0 => q0
  | n + 1 => ipfSweep t (ipf t groups q0 n) groups

/-- Uniform table on a list of outcomes. -/
def uniformOn (ofNat : Nat → α) (space : List (List σ)) : Tab (List σ) α :=
  space.map (fun o => (o, 1 / ofNat space.length))

end
end Dit
