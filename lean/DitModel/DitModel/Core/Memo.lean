/-
A memoised query: the model of `dit.math.ops.get_ops` (and of any "look the key up, else build and store" cache a
query may keep): hidden state that calls DO write, and the reason repeatability is still observable.
`cache` is a Python dict: insertion ordered, one entry per key.
-/
namespace Dit

variable {κ ν : Type}

/-- Lookup of a key (first entry; a dict holds at most one). -/
def memoGet [DecidableEq κ] : List (κ × ν) → κ → Option ν
  | [], _ => none
  | (k', v) :: c, k => if k' = k then some v else memoGet c k

/-- `if key in cache: v = cache[key] else: v = build(key); cache[key] = v; return v`. -/
def memoCall [DecidableEq κ] (build : κ → ν) (c : List (κ × ν)) (k : κ) : ν × List (κ × ν) :=
  match memoGet c k with
  | some v => (v, c)
  | none => (build k, c ++ [(k, build k)])

/-- A history of calls: the returned values and the final cache. -/
def memoRun [DecidableEq κ] (build : κ → ν) : List (κ × ν) → List κ → List ν × List (κ × ν)
  | c, [] => ([], c)
  | c, k :: ks =>
      let r := memoCall build c k
      let rest := memoRun build r.2 ks
      (r.1 :: rest.1, rest.2)

/-- Whether each call of a history was answered from the cache. -/
def memoHits [DecidableEq κ] (build : κ → ν) : List (κ × ν) → List κ → List Bool
  | _, [] => []
  | c, k :: ks => (memoGet c k).isSome :: memoHits build (memoCall build c k).2 ks

end Dit
