/-
Line protocol driver: `<op> <json-args>` per line in, one JSON line out.
Unknown or malformed lines answer `bad-op` (never a default value).
-/
import DitModel.Drv.Basic
import DitModel.Drv.Simplex
import DitModel.Drv.Info
import DitModel.Drv.Constr
import DitModel.Drv.Diverge
import DitModel.Drv.Pid
import DitModel.Drv.Channel
import DitModel.Drv.Meet
import DitModel.Drv.Maxent
import DitModel.Drv.AuxJoint
import DitModel.Drv.Examples
import DitModel.Drv.SigAlg
import DitModel.Drv.SetPart
import DitModel.Drv.Hidden
open Dit Dit.Drv

def handlers : List (String × (J → Option J)) := basicHandlers ++ simplexHandlers ++ infoHandlers ++ opsHandlers ++ constrHandlers ++ divergeHandlers ++ pidHandlers ++ channelHandlers ++ meetHandlers ++ maxentHandlers ++ auxHandlers ++ exampleHandlers ++ sigalgHandlers ++ setpartHandlers ++ hiddenHandlers

def answer (line : String) : String :=
  let line := line.trimAscii.toString
  match line.splitOn " " with
  | [] => "bad-op"
  | op :: rest =>
    match handlers.lookup op, J.parse (" ".intercalate rest) with
    | some h, some args => match h args with
        | some out => out.render
        | none => "bad-op"
    | _, _ => "bad-op"

partial def loop (h : IO.FS.Stream) (out : IO.FS.Stream) : IO Unit := do
  let line ← h.getLine
  if line.isEmpty then return ()
  out.putStrLn (answer line)
  out.flush
  loop h out

def main : IO Unit := do loop (← IO.getStdin) (← IO.getStdout)
