/-
Handlers for the divergences (C06): the generic definitions of Core/Diverge evaluated in
`Float`, the companion matrix / characteristic polynomial of maximum correlation in `Rat`.
-/
import DitModel.Core.Diverge
import DitModel.Core.FDiv
import DitModel.Core.Diverge2
import DitModel.Drv.Info
namespace Dit.Drv
open Dit

def J.toFPairs? : J → Option (List (Float × Float)) :=
  J.toList? (fun r => match r with
    | .arr [a, b] => do pure (← a.toFloat?, ← b.toFloat?)
    | _ => none)

def optFloatJ : Option Float → J
  | some x => floatJ x
  | none => .str "inf"

/-- `divf [name, pairs, a]` -/
def hDivF : J → Option J
  | .arr [.str name, pq, a] => do
      let pq ← J.toFPairs? pq
      let a ← a.toFloat?
      match name with
      | "cross_entropy" => pure (optFloatJ (crossEntropyVals Float.log2 pq))
      | "kl" => pure (optFloatJ (klVals Float.log2 pq))
      | "tv" => pure (floatJ (tvVals 2 pq))
      | "bc" => pure (floatJ (bcVals Float.sqrt pq))
      | "hellinger" =>
        -- in exact arithmetic BC ≤ 1 (Props/C06 `bc_le_one`); rounding can push the Float value a few ulps
        -- above 1, where dit returns 0 instead of NaN: the same guard here
        let h := hellingerVals Float.sqrt pq
        pure (floatJ (if h.isNaN then 0 else h))
      | "power_sum" => pure (floatJ (powerSum floatR a (1 - a) pq))
      | "renyi" => pure (floatJ (renyiDiv floatR a pq))
      | "tsallis" => pure (floatJ (tsallisDiv floatR a pq))
      | "alpha" => pure (floatJ (alphaDiv floatR 2 4 a pq))
      | _ => none
  | _ => none

/-- `fdivf [name, pairs]`: the textbook f-divergence (`Core/FDiv.lean`) over pairs aligned on the UNION of the
supports, for the menu of convex functions the harness uses; `null` = `+∞`. -/
def hFDivF : J → Option J
  | .arr [.str name, pq] => do
      let pq ← J.toFPairs? pq
      let absF : Float → Float := fun t => if t < 0 then -t else t
      let r ← match name with
        | "kl" => some (fdivVals (fun t => if t == 0 then 0 else t * Float.log2 t) none pq)
        | "rkl" => some (fdivVals (fun t => -(Float.log2 t)) (some 0) pq)
        | "tv" => some (fdivVals (fun t => absF (t - 1) / 2) (some 0.5) pq)
        | "chi2" => some (fdivVals (fun t => (t - 1) * (t - 1)) none pq)
        | "hel" => some (fdivVals (fun t => (Float.sqrt t - 1) * (Float.sqrt t - 1)) (some 1) pq)
        | _ => none
      pure (optFloatJ r)
  | _ => none

/-- `jsdf [pmfs, w]` -/
def hJsdF : J → Option J
  | .arr [pmfs, w] => do
      pure (floatJ (jsdVals Float.log2 (← J.toList? (J.toList? J.toFloat?) pmfs) (← J.toList? J.toFloat? w)))
  | _ => none

/-- `align [t1, t2]`: the two alignments as exact pairs. -/
def hAlign : J → Option J
  | .arr [t1, t2] => do
      let t1 ← J.toTab? decNat t1
      let t2 ← J.toTab? decNat t2
      let f := fun (l : List (Rat × Rat)) => listJ (fun r => J.arr [ratJ r.1, ratJ r.2]) l
      pure (.arr [f (alignPair t1 t2), f (alignUnion t1 t2)])
  | _ => none

/-- `maxcorr [P]`: companion matrix and the coefficients of its characteristic polynomial. -/
def hMaxcorr : J → Option J
  | .arr [P] => do
      let P ← J.toList? (J.toList? J.toRat?) P
      let A := maxcorrCompanion P
      pure (.arr [listJ (listJ ratJ) A, listJ ratJ (charPoly (fun n => (n : Rat)) A)])
  | _ => none

/-- `chernf [pairs, alphas]`: the Chernoff objective `log2 Σ p^α q^(1−α)` at each α. -/
def hChernF : J → Option J
  | .arr [pq, alphas] => do
      let pq ← J.toFPairs? pq
      let alphas ← J.toList? J.toFloat? alphas
      pure (listJ floatJ (alphas.map (fun a => chernoffObj floatR Float.log2 a pq)))
  | _ => none

/-- `lautumf [table, X, Y]` with float values: lautum information of two groups (`"inf"` when infinite). -/
def hLautumF : J → Option J
  | .arr [t, X, Y] => do
      let rows ← J.toList? (fun r => match r with
        | .arr [o, v] => do pure (← J.toList? decNat o, ← v.toFloat?)
        | _ => none) t
      let X ← J.toList? decNat X
      let Y ← J.toList? decNat Y
      pure (optFloatJ (lautumVals Float.log2 rows X Y))
  | _ => none

def divergeHandlers : List (String × (J → Option J)) :=
  [("divf", hDivF), ("fdivf", hFDivF), ("jsdf", hJsdF), ("align", hAlign), ("maxcorr", hMaxcorr), ("chernf", hChernF), ("lautumf", hLautumF)]

end Dit.Drv
