/-
Handlers for set partitions and the functional common information (C05 / C16).
-/
import DitModel.Core.SetPart
import DitModel.Drv.Basic
import DitModel.Drv.Info
import DitModel.Drv.Meet
namespace Dit.Drv
open Dit

/-- `partitions1 [list]`: the partitions in the order `dit.utils.partitions1` yields them;
`setpartitions [list]`: the recursive enumeration used by the CAEKL / F models. -/
def hPartitions1 : J → Option J
  | .arr [l] => do pure (classesJ ((partitions1 (← J.toList? decNat l)).map (fun p => p.map (fun b => b))) )
  | _ => none

def hSetPartitions : J → Option J
  | .arr [l] => do pure (classesJ (setPartitions (← J.toList? decNat l)))
  | _ => none

/-- `fci [tab, groups]` -> [minimal entropy over the feasible partitions (Float bits), number of feasible
partitions, number of partitions, a minimising partition]. -/
def hFci : J → Option J
  | .arr [t, groups] => do
      let t ← J.toTab? decNat t
      let groups ← J.toList? (J.toList? decNat) groups
      let cands := fciCandidates t groups
      let ent : List (List (List Nat)) → Float := fun P => entropyVals Float.log2 ((partMasses t P).map ratToFloat)
      match cands with
      | [] => none
      | c :: cs =>
        let best := cs.foldl (fun (b : Float × List (List (List Nat))) P => let h := ent P; if h < b.1 then (h, P) else b) (ent c, c)
        pure (.arr [floatJ best.1, natJ cands.length, natJ (setPartitions (keys t)).length, classesJ best.2])
  | _ => none

/-- `fcifeasible [tab, groups, partition]`. -/
def hFciFeasible : J → Option J
  | .arr [t, groups, p] => do
      let t ← J.toTab? decNat t
      let groups ← J.toList? (J.toList? decNat) groups
      let p ← J.toList? (J.toList? (J.toList? decNat)) p
      pure (.bool (fciFeasible t groups p))
  | _ => none

def setpartHandlers : List (String × (J → Option J)) :=
  [("partitions1", hPartitions1), ("setpartitions", hSetPartitions), ("fci", hFci), ("fcifeasible", hFciFeasible)]

end Dit.Drv
