/-
Encoding of model values for the line protocol, and the `Rat` instantiation of the
number configuration.
-/
import DitModel.Core.Coalesce
import DitModel.Drv.Json
namespace Dit.Drv
open Dit

/-- Lexicographic strict order from a strict order on symbols. -/
def lexBy {σ : Type} (lt : σ → σ → Bool) : List σ → List σ → Bool
  | [], [] => false
  | [], _ :: _ => true
  | _ :: _, [] => false
  | a :: as, b :: bs => if lt a b then true else if lt b a then false else lexBy lt as bs

def natLt (a b : Nat) : Bool := decide (a < b)

def ratAbs (q : Rat) : Rat := if q < 0 then -q else q

/-- The operations objects of dit, seen from the linear domain (see DESIGN.md §4):
`isNull` is `np.isclose(p, 0)` (|p| ≤ 1e-8) for linear values and exact nullity for log
values; `normOK` is `np.isclose(total, 1)` (|total-1| ≤ 1e-8 + 1e-5) for linear values;
for log values the real test is `|log_b total| ≤ 1e-8`, modelled by a threshold of 1e-7
on `|total - 1|` (generators keep away from the band 1e-9 … 1e-6). -/
def ratCfg : NumCfg Rat where
  isNull b x := match b with
    | .linear => decide (ratAbs x ≤ 1 / 100000000)
    | .log _ => decide (x = 0)
  normOK b t := match b with
    | .linear => decide (ratAbs (t - 1) ≤ 1001 / 100000000)
    | .log _ => decide (ratAbs (t - 1) ≤ 1 / 10000000)
  rangeOK b x := match b with
    | .linear => decide (-(1 / 100000000 : Rat) ≤ x) && decide (x ≤ 1 + 1001 / 100000000)
    | .log _ => decide (0 ≤ x) && decide (x ≤ 1 + 1 / 10000000)

def baseJ : Base → J
  | .linear => .int 0
  | .log k => .int (k + 1)

def J.toBase? : J → Option Base
  | .int 0 => some .linear
  | .int i => if i > 0 then some (.log (i.toNat - 1)) else none
  | _ => none

def outJ {σ : Type} (enc : σ → J) (o : List σ) : J := listJ enc o

def tabJ {σ : Type} (enc : σ → J) (t : Tab (List σ) Rat) : J :=
  listJ (fun r => J.arr [outJ enc r.1, ratJ r.2]) t

def J.toTab? {σ : Type} (dec : J → Option σ) : J → Option (Tab (List σ) Rat) :=
  J.toList? (fun r => match r with
    | .arr [o, v] => do
        let o' ← J.toList? dec o
        let v' ← J.toRat? v
        pure (o', v')
    | _ => none)

def spaceJ {σ : Type} (enc : σ → J) : Space σ → J
  | .cart as => .arr [.str "cart", listJ (listJ enc) as]
  | .expl os => .arr [.str "expl", listJ (listJ enc) os]

def J.toSpace? {σ : Type} (dec : J → Option σ) : J → Option (Space σ)
  | .arr [.str "cart", as] => (J.toList? (J.toList? dec) as).map Space.cart
  | .arr [.str "expl", os] => (J.toList? (J.toList? dec) os).map Space.expl
  | _ => none

def distJ {σ : Type} (enc : σ → J) (d : Dist σ Rat) : J :=
  .arr [spaceJ enc d.space, tabJ enc d.tab, .bool d.sparse, baseJ d.base]

def J.toDist? {σ : Type} (dec : J → Option σ) : J → Option (Dist σ Rat)
  | .arr [s, t, sp, b] => do
      let s' ← J.toSpace? dec s
      let t' ← J.toTab? dec t
      let sp' ← J.toBool? sp
      let b' ← J.toBase? b
      pure { space := s', tab := t', sparse := sp', base := b' }
  | _ => none

def errJ : Err → J
  | .invalidDistribution => .str "InvalidDistribution"
  | .invalidOutcome => .str "InvalidOutcome"
  | .invalidNormalization => .str "InvalidNormalization"
  | .invalidProbability => .str "InvalidProbability"
  | .ditException => .str "ditException"

def J.toSpaceArg? {σ : Type} (dec : J → Option σ) : J → Option (SpaceArg σ)
  | .null => some .none
  | .arr [.str "list", os] => (J.toList? (J.toList? dec) os).map SpaceArg.list
  | .arr [.str "ss", os] => (J.toList? (J.toList? dec) os).map SpaceArg.sampleSpace
  | .arr [.str "cart", as] => (J.toList? (J.toList? dec) as).map SpaceArg.cartesian
  | _ => none

/-- Observable record of a distribution (what the harness compares): sample space
members in order, per-variable alphabets, stored table, `d[o]` for every member. -/
def obsJ {σ : Type} [DecidableEq σ] (enc : σ → J) (d : Dist σ Rat) : J :=
  .arr [listJ (outJ enc) d.space.toList,
        listJ (listJ enc) d.space.alphabets,
        tabJ enc d.tab,
        .bool d.sparse,
        baseJ d.base,
        listJ (fun o => match d.get o with | some v => ratJ v | none => J.null) d.space.toList]

end Dit.Drv
