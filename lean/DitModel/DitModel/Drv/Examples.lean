/-
Handlers for the example-distribution constructors and uniform binning (C11, C19): exact tables.
-/
import DitModel.Core.Examples
import DitModel.Core.Binning
import DitModel.Core.PruneExpand
import DitModel.Drv.Constr
namespace Dit.Drv
open Dit

private def nr (n : Nat) : Rat := (n : Rat)

def scalarTabJ (t : Tab Nat Rat) : J := listJ (fun r => J.arr [J.arr [natJ r.1], ratJ r.2]) t

/-- `example [name, args…]` → table of `[outcome, probability]` with outcomes as lists of naturals. -/
def hExample : J → Option J
  | .arr [.str "giant_bit", n, k] => do pure (tabJ natJ (giantBit nr (← n.toNat?) (← k.toNat?)))
  | .arr [.str "n_mod_m", n, m] => do pure (tabJ natJ (nModM nr (← n.toNat?) (← m.toNat?)))
  | .arr [.str "iid_sum", n, k] => do pure (tabJ natJ (iidSum nr (← n.toNat?) (← k.toNat?)))
  | .arr [.str "xor", k] => do pure (tabJ natJ (gateTab nr xorGate (← k.toNat?)))
  | .arr [.str "and", k] => do pure (tabJ natJ (gateTab nr andGate (← k.toNat?)))
  | .arr [.str "or", k] => do pure (tabJ natJ (gateTab nr orGate (← k.toNat?)))
  | .arr [.str "binomial", n, p] => do pure (scalarTabJ (binomialTab nr (← n.toNat?) (← p.toRat?)))
  | .arr [.str "hypergeometric", N, K, n] => do
      pure (scalarTabJ (hypergeometricTab nr (← N.toNat?) (← K.toNat?) (← n.toNat?)))
  | .arr [.str "uniform_range", w] => do pure (scalarTabJ (uniformRange nr (← w.toNat?)))
  | .arr [.str "summed_dice", a, b] => do pure (tabJ natJ (summedDice nr (← a.toRat?) (← b.toNat?)))
  | _ => none

/-- `ubin [bins, lo, range, eps, [x…]]` → the bin index of each `x`. -/
def hUniformBin : J → Option J
  | .arr [bins, lo, range, eps, xs] => do
      let bins ← bins.toNat?
      let lo ← lo.toRat?
      let range ← range.toRat?
      let eps ← eps.toRat?
      let xs ← J.toList? J.toRat? xs
      pure (listJ natJ (xs.map (uniformBin nr bins lo range eps)))
  | _ => none

/-- `mbin [bins, [x…]]` → `{"labels": [label or null…], "thresholds": [t_0 … t_bins]}` of `maxent_binning`. -/
def hMaxentBin : J → Option J
  | .arr [bins, xs] => do
      let bins ← bins.toNat?
      let xs ← J.toList? J.toRat? xs
      let labs := maxentBinning nr bins xs
      pure (J.arr [listJ (fun l => match l with | some k => natJ k | none => J.null) labs,
                   listJ ratJ (maxentThresholds nr bins xs)])
  | _ => none

/-- `prune [dist, keep]` / `expand [dist, union]`: observable record of the rebuilt distribution, or the error. -/
def hPrune : J → Option J
  | .arr [d, keep] => do
      let d ← J.toDist? decNat d
      let keep ← J.toList? (J.toList? decNat) keep
      pure (exceptJ (obsJ natJ) (prunedDist ratCfg (fun v => v == 0) natLt lex1 d keep))
  | _ => none

def hExpand : J → Option J
  | .arr [d, u] => do
      let d ← J.toDist? decNat d
      let u ← u.toBool?
      pure (exceptJ (obsJ natJ) (expandedDist ratCfg natLt lex1 d u))
  | _ => none

def exampleHandlers : List (String × (J → Option J)) :=
  [("example", hExample), ("ubin", hUniformBin), ("mbin", hMaxentBin), ("prune", hPrune), ("expand", hExpand)]

end Dit.Drv
