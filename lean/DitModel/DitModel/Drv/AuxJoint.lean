/-
Handlers for the auxiliary-variable optimisers (C15).
-/
import DitModel.Core.AuxJoint
import DitModel.Drv.Info
namespace Dit.Drv
open Dit

def J.toAux? : J → Option AuxVar
  | .arr [bases, bound] => do pure ⟨← J.toList? decNat bases, ← bound.toNat?⟩
  | _ => none

/-- `auxjoint [sizes, ftab, auxvars, x]`: the joint in `Float` (table keyed by index tuples). -/
def hAuxJoint : J → Option J
  | .arr [sizes, t, avs, x] => do
      let sizes ← J.toList? decNat sizes
      let t ← J.toFTab? t
      let avs ← J.toList? J.toAux? avs
      let x ← J.toList? J.toFloat? x
      let j := constructJoint Float.ofNat sizes t avs x
      pure (listJ (fun r => J.arr [listJ natJ r.1, floatJ r.2]) j)
  | _ => none

/-- `auxjointq`: the same in exact arithmetic. -/
def hAuxJointQ : J → Option J
  | .arr [sizes, t, avs, x] => do
      let sizes ← J.toList? decNat sizes
      let t ← J.toTab? decNat t
      let avs ← J.toList? J.toAux? avs
      let x ← J.toList? J.toRat? x
      let j := constructJoint (fun n => (n : Rat)) sizes t avs x
      pure (tabJ natJ j)
  | _ => none

def auxHandlers : List (String × (J → Option J)) := [("auxjoint", hAuxJoint), ("auxjointq", hAuxJointQ)]

end Dit.Drv
