/-
Handlers for the models of hidden state behind queries: the memo of `get_ops` (C10) and draws with a generator (C12).
-/
import DitModel.Core.Memo
import DitModel.Core.Generator
import DitModel.Drv.Basic
namespace Dit.Drv
open Dit

def J.toStr? : J → Option String
  | .str s => some s
  | _ => none

/-- `memo [initial keys, calls]` (keys are the `repr` of Python bases; an operations object is identified by the base
it reports, so `build = id`) -> [returned values, final keys in insertion order, hit flags]. -/
def hMemo : J → Option J
  | .arr [init, calls] => do
      let init ← J.toList? J.toStr? init
      let calls ← J.toList? J.toStr? calls
      let c0 := init.map (fun k => (k, k))
      let r := memoRun (fun k => k) c0 calls
      pure (.arr [listJ .str r.1, listJ .str (r.2.map (·.1)), listJ .bool (memoHits (fun k : String => k) c0 calls)])
  | _ => none

/-- The generator that hands out a given finite stream: state = what is left (`0` once exhausted, never reached by
the harness). -/
def streamNext : List Float → Float × List Float
  | [] => (0, [])
  | u :: us => (u, us)

/-- `randn [pmf bits, stream bits, sizes]`: successive `rand(size = n_i, prng = g)` on ONE generator `g` ->
[list of index lists, number of uniforms left]. -/
def hRandN : J → Option J
  | .arr [pmf, stream, sizes] => do
      let pmf ← J.toList? J.toFloat? pmf
      let stream ← J.toList? J.toFloat? stream
      let sizes ← J.toList? J.toNat? sizes
      let r := sizes.foldl (fun (acc : List (List (Option Nat)) × List Float) n =>
        let d := randN streamNext pmf n acc.2
        (acc.1 ++ [d.1], d.2)) ([], stream)
      pure (.arr [listJ (listJ optNatJ) r.1, natJ r.2.length])
  | _ => none

def hiddenHandlers : List (String × (J → Option J)) := [("memo", hMemo), ("randn", hRandN)]

end Dit.Drv
