/-
Handlers for the partial information decomposition (C17).
-/
import DitModel.Core.Lattice
import DitModel.Core.Wedge
import DitModel.Drv.Info
namespace Dit.Drv
open Dit

def nodeJ (x : RNode) : J := listJ (listJ natJ) x

/-- `lattice [n]`: nodes, and for each node the nodes strictly below it. -/
def hLattice : J → Option J
  | .arr [n] => do
      let n ← n.toNat?
      let nodes := rnodes n
      pure (.arr [listJ nodeJ nodes, listJ (fun x => listJ nodeJ (rbelow nodes x)) nodes,
                  nodeJ (rtop n), nodeJ (rbottom n)])
  | _ => none

/-- `moebius [n, reds]` with `reds` aligned with `rnodes n`: the atoms, aligned likewise. -/
def hMoebius : J → Option J
  | .arr [n, reds] => do
      let n ← n.toNat?
      let reds ← J.toList? J.toRat? reds
      let nodes := rnodes n
      let tab : Tab RNode Rat := nodes.zip reds
      let pis := moebius nodes (fun x => lookupD 0 tab x)
      pure (listJ (fun x => ratJ (lookupD 0 pis x)) nodes)
  | _ => none

/-- Remap a node over source indices to a node over the sources' variable sets. -/
def nodeVars (sources : List VSet) (x : RNode) : RNode :=
  x.map (fun s => vunions (s.map (fun i => sources.getD i [])))

/-- `pidf [name, ftab, sources, target]`: the redundancy of every node of `rnodes n`
(`n = sources.length`) for `imin` / `immi` / `iwedge`, in `Float`. -/
def hPidF : J → Option J
  | .arr [.str name, t, sources, target] => do
      let t ← J.toFTab? t
      let sources ← J.toList? (J.toList? decNat) sources
      let target ← J.toList? decNat target
      let nodes := rnodes sources.length
      match name with
      | "immi" => pure (listJ (fun x => floatJ (immi Float.log2 t target (nodeVars sources x))) nodes)
      | "imin" => pure (listJ (fun x => floatJ (imin Float.log2 t target (nodeVars sources x))) nodes)
      | "iwedge" =>
        let n := (t.head?.map (fun r => r.1.length)).getD 0
        pure (listJ (fun x => floatJ (iwedge Float.log2 id t n target (nodeVars sources x))) nodes)
      | _ => none
  | _ => none

def pidHandlers : List (String × (J → Option J)) :=
  [("lattice", hLattice), ("moebius", hMoebius), ("pidf", hPidF)]

end Dit.Drv
