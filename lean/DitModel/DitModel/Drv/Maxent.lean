/-
Handlers for maximum-entropy distributions (C14): IPF reference and residuals in `Float`.
-/
import DitModel.Core.Maxent
import DitModel.Drv.Info
namespace Dit.Drv
open Dit

def ftabJ (t : Tab (List Nat) Float) : J := listJ (fun r => J.arr [listJ natJ r.1, floatJ r.2]) t

/-- `ipff [target ftab, space, groups, sweeps]`: IPF from the uniform table on `space`;
returns the fitted table, its residual against the target, and its entropy. -/
def hIpfF : J → Option J
  | .arr [t, space, groups, sweeps] => do
      let t ← J.toFTab? t
      let space ← J.toList? (J.toList? decNat) space
      let groups ← J.toList? (J.toList? decNat) groups
      let sweeps ← sweeps.toNat?
      let q := ipf t groups (uniformOn Float.ofNat space) sweeps
      pure (.arr [ftabJ q, floatJ (marginalResidual t q groups), floatJ (entropyVals Float.log2 (vals q))])
  | _ => none

/-- `residf [t, q, groups]`: marginal residual between two float tables. -/
def hResidF : J → Option J
  | .arr [t, q, groups] => do
      pure (floatJ (marginalResidual (← J.toFTab? t) (← J.toFTab? q) (← J.toList? (J.toList? decNat) groups)))
  | _ => none

def maxentHandlers : List (String × (J → Option J)) := [("ipff", hIpfF), ("residf", hResidF)]

end Dit.Drv
