/-
Minimal JSON subset for the line protocol: arrays, integers, strings without
escapes, true/false/null.  Import-free so the driver can be a compiled `lean_exe`.
-/
namespace Dit.Drv

inductive J where
  | int (i : Int)
  | str (s : String)
  | bool (b : Bool)
  | null
  | arr (l : List J)
  deriving Inhabited

partial def J.render : J → String
  | .int i => toString i
  | .str s => "\"" ++ s ++ "\""
  | .bool b => if b then "true" else "false"
  | .null => "null"
  | .arr l => "[" ++ ",".intercalate (l.map J.render) ++ "]"

private def skipWs : List Char → List Char
  | c :: cs => if c = ' ' || c = '\t' || c = '\n' || c = '\r' then skipWs cs else c :: cs
  | [] => []

private def takeDigits : List Char → List Char → List Char × List Char
  | acc, c :: cs => if c.isDigit then takeDigits (c :: acc) cs else (acc.reverse, c :: cs)
  | acc, [] => (acc.reverse, [])

private def takeStr : List Char → List Char → Option (List Char × List Char)
  | acc, c :: cs => if c = '"' then some (acc.reverse, cs) else takeStr (c :: acc) cs
  | _, [] => none

private def digitsToNat (ds : List Char) : Nat :=
  ds.foldl (fun n c => 10 * n + (c.toNat - '0'.toNat)) 0

mutual
partial def parseVal (cs : List Char) : Option (J × List Char) :=
  match skipWs cs with
  | '[' :: rest => parseElems (skipWs rest) []
  | '"' :: rest => (takeStr [] rest).map (fun (s, r) => (J.str (String.ofList s), r))
  | 't' :: 'r' :: 'u' :: 'e' :: rest => some (.bool true, rest)
  | 'f' :: 'a' :: 'l' :: 's' :: 'e' :: rest => some (.bool false, rest)
  | 'n' :: 'u' :: 'l' :: 'l' :: rest => some (.null, rest)
  | '-' :: rest =>
      let (ds, r) := takeDigits [] rest
      if ds.isEmpty then none else some (.int (-(Int.ofNat (digitsToNat ds))), r)
  | c :: rest =>
      if c.isDigit then
        let (ds, r) := takeDigits [] (c :: rest)
        some (.int (Int.ofNat (digitsToNat ds)), r)
      else none
  | [] => none

partial def parseElems (cs : List Char) (acc : List J) : Option (J × List Char) :=
  match skipWs cs with
  | ']' :: rest => some (.arr acc.reverse, rest)
  | cs' =>
    match parseVal cs' with
    | none => none
    | some (v, rest) =>
      match skipWs rest with
      | ',' :: rest' => parseElems rest' (v :: acc)
      | ']' :: rest' => some (.arr (v :: acc).reverse, rest')
      | _ => none
end

def J.parse (s : String) : Option J :=
  match parseVal s.toList with
  | some (v, rest) => if (skipWs rest).isEmpty then some v else none
  | none => none

/-! Decoders -/

def J.toNat? : J → Option Nat
  | .int i => if i ≥ 0 then some i.toNat else none
  | _ => none

def J.toInt? : J → Option Int
  | .int i => some i
  | _ => none

def J.toBool? : J → Option Bool
  | .bool b => some b
  | _ => none

def J.toList? {β : Type} (f : J → Option β) : J → Option (List β)
  | .arr l => l.mapM f
  | _ => none

/-- Rationals travel as strings `"n/d"` or `"n"`, or as plain integers. -/
def J.toRat? : J → Option Rat
  | .int i => some (i : Rat)
  | .str s =>
    match s.splitOn "/" with
    | [n] => n.toInt?.map (fun i => (i : Rat))
    | [n, d] =>
      match n.toInt?, d.toNat? with
      | some i, some k => if k = 0 then none else some (mkRat i k)
      | _, _ => none
    | _ => none
  | _ => none

def ratJ (q : Rat) : J :=
  if q.den = 1 then .int q.num else .str (toString q.num ++ "/" ++ toString q.den)

def natJ (n : Nat) : J := .int n
def listJ {β : Type} (f : β → J) (l : List β) : J := .arr (l.map f)

/-- Floats travel as their IEEE-754 bit patterns (decimal `UInt64`). -/
def J.toFloat? : J → Option Float
  | .int i => if i ≥ 0 then some (Float.ofBits (UInt64.ofNat i.toNat)) else none
  | _ => none

def floatJ (x : Float) : J := .int (Int.ofNat x.toBits.toNat)

end Dit.Drv
