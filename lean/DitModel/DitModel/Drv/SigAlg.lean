/-
Handlers for sigma-algebras and the sigma-algebra route to join / meet (C16).
-/
import DitModel.Core.SigAlg
import DitModel.Drv.Basic
import DitModel.Drv.Meet
namespace Dit.Drv
open Dit

def famJ (f : List (List Nat)) : J := listJ (listJ natJ) f

/-- `sigalg [C, X]` (`X` may be null: the union of `C`). -/
def hSigalg : J → Option J
  | .arr [c, x] => do
      let c ← J.toList? (J.toList? decNat) c
      let x ← match x with
        | .null => pure (unionAll c)
        | x => J.toList? decNat x
      pure (famJ (sigmaAlgebra c x))
  | _ => none

/-- `issa [F, X]` -> [counting criterion, brute force]. -/
def hIssa : J → Option J
  | .arr [f, x] => do
      let f ← J.toList? (J.toList? decNat) f
      let x ← match x with
        | .null => pure (unionAll f)
        | x => J.toList? decNat x
      pure (.arr [.bool (isSigmaAlgebra f x), .bool (isSigmaAlgebraBrute f x)])
  | _ => none

/-- `atoms [F]`. -/
def hAtoms : J → Option J
  | .arr [f] => do
      pure (famJ (atomSet (← J.toList? (J.toList? decNat) f)))
  | _ => none

/-- `latsig [kind, rows, groups]` with kind `induced` (one group) | `join` | `meet`: the sigma-algebra;
`latatoms [...]`: its atoms. -/
def latFam (kind : String) (rows : List (List Nat)) (groups : List (List Nat)) : Option (List (List (List Nat))) :=
  match kind, groups with
  | "induced", [g] => some (inducedSigalg g rows)
  | "join", _ => some (joinSigalg groups rows)
  | "meet", _ => some (meetSigalg groups rows)
  | _, _ => none

def hLatsig : J → Option J
  | .arr [.str kind, rows, groups] => do
      let rows ← J.toList? (J.toList? decNat) rows
      let groups ← J.toList? (J.toList? decNat) groups
      pure (classesJ (← latFam kind rows groups))
  | _ => none

def hLatatoms : J → Option J
  | .arr [.str kind, rows, groups] => do
      let rows ← J.toList? (J.toList? decNat) rows
      let groups ← J.toList? (J.toList? decNat) groups
      pure (classesJ (atomSet (← latFam kind rows groups)))
  | _ => none

def sigalgHandlers : List (String × (J → Option J)) :=
  [("sigalg", hSigalg), ("issa", hIssa), ("atoms", hAtoms), ("latsig", hLatsig), ("latatoms", hLatatoms)]

end Dit.Drv
