/-
Handlers for the entropy family (C04, C05, C07, C18): entropy combinations in exact
canonical form (symbolic leg) and evaluated in `Float` on a table (numeric leg).
-/
import DitModel.Core.Info
import DitModel.Core.Ops
import DitModel.Core.Partition
import DitModel.Drv.Basic
namespace Dit.Drv
open Dit

def floatR : RealOps Float := ⟨Float.log2, Float.pow, Float.ofNat, Float.log2 (Float.exp 1)⟩

def combJ (c : Comb) : J := listJ (fun r => J.arr [ratJ r.1, listJ natJ r.2]) c

def ratToFloat (q : Rat) : Float := Float.ofInt q.num / Float.ofNat q.den

/-- Table with float values: `[[outcome, bits], …]`. -/
def J.toFTab? : J → Option (Tab (List Nat) Float) :=
  J.toList? (fun r => match r with
    | .arr [o, v] => do pure (← J.toList? decNat o, ← J.toFloat? v)
    | _ => none)

/-- The measure named `name` as a list of candidate combinations (a singleton except for
CAEKL, whose value is the minimum over the candidates). -/
def measureCombs (name : String) (k : Nat) (groups : List VSet) (Z : VSet) : Option (List Comb) :=
  match name with
  | "entropy" => some [condH (vunions groups) Z]
  | "coinformation" => some [coinfoC groups Z]
  | "interaction_information" => some [interactionC groups Z]
  | "total_correlation" => some [tcC groups Z]
  | "dual_total_correlation" => some [dtcC groups Z]
  | "residual_entropy" => some [residualC groups Z]
  | "o_information" => some [oinfoC groups Z]
  | "tse_complexity" => some [tseC groups Z]
  | "cohesion" => some [cohesionC k groups Z]
  | "caekl_mutual_information" => some (caeklCands groups Z)
  | "atom" => some [atomC k (vunions groups)]
  | "query" => some [queryC k groups Z]
  | "profile" => some [profileC k (Z.getD 0 0)]
  | "atoms_total" => some [atomsTotalC k]
  | "cmi" => match groups with
      | [X, Y] => some [cmiC X Y Z]
      | _ => none
  | _ => none

/-- `comb [name, k, groups, crvs]`: canonical combinations. -/
def hComb : J → Option J
  | .arr [.str name, k, groups, Z] => do
      let cs ← measureCombs name (← k.toNat?) (← J.toList? (J.toList? decNat) groups) (← J.toList? decNat Z)
      pure (listJ (fun c => combJ c.canon) cs)
  | _ => none

def fmin (l : List Float) : Float :=
  match l with
  | [] => 0
  | x :: t => t.foldl (fun m y => if y < m then y else m) x

/-- `combf [name, k, groups, crvs, ftab]`: the measure evaluated in `Float` on the table
(entropies in bits), minimum over candidates. -/
def hCombF : J → Option J
  | .arr [.str name, k, groups, Z, t] => do
      let cs ← measureCombs name (← k.toNat?) (← J.toList? (J.toList? decNat) groups) (← J.toList? decNat Z)
      let t ← J.toFTab? t
      let H : VSet → Float := fun X => entropyOf Float.log2 t X
      pure (floatJ (fmin (cs.map (fun c => Comb.eval ratToFloat H c.canon))))
  | _ => none

/-- `entf [name, order-or-null, values]`: entropies of a list of probabilities in `Float`.
`order` is a float bit pattern, or the string "inf". -/
def hEntF : J → Option J
  | .arr [.str name, ord, ps] => do
      let ps ← J.toList? J.toFloat? ps
      match name with
      | "entropy" => pure (floatJ (entropyVals Float.log2 ps))
      | "extropy" => pure (floatJ (extropyVals Float.log2 ps))
      | "perplexity" => pure (floatJ (perplexityVals floatR 2 ps))
      | "renyi" =>
        match ord with
        | .str "inf" => pure (floatJ (renyiVals floatR .inf ps))
        | o => do pure (floatJ (renyiVals floatR (.fin (← o.toFloat?)) ps))
      | "tsallis" => do pure (floatJ (tsallisVals floatR (← ord.toFloat?) ps))
      | _ => none
  | _ => none

/-- `margf [ftab, X]`: values of the marginal on `X` (fibre sums in Float). -/
def hMargF : J → Option J
  | .arr [t, X] => do
      let t ← J.toFTab? t
      let X ← J.toList? decNat X
      pure (listJ floatJ (vals (pushforward (project X) t)))
  | _ => none

def infoHandlers : List (String × (J → Option J)) :=
  [("comb", hComb), ("combf", hCombF), ("entf", hEntF), ("margf", hMargF)]

end Dit.Drv

namespace Dit.Drv
open Dit

/-- `Float` instance of a logarithm base. -/
def floatBase (b : Float) : LogBase Float :=
  ⟨fun x => Float.pow b x, fun x => Float.log x / Float.log b, Float.exp2, Float.log2,
   Float.log2 b, Float.log 2 / Float.log b⟩

/-- `opsf [name, base, xs, ys]`: dit's log operations evaluated in `Float` from the model's
formulas. `base` and the arrays are double bit patterns. -/
def hOpsF : J → Option J
  | .arr [.str name, b, xs, ys] => do
      let b ← b.toFloat?
      let xs ← J.toList? J.toFloat? xs
      let ys ← J.toList? J.toFloat? ys
      let B := floatBase b
      match name with
      | "add" => pure (listJ floatJ (List.zipWith (logAdd B) xs ys))
      | "add_generic" => pure (listJ floatJ (List.zipWith (logAddGeneric B) xs ys))
      | "mult" => pure (listJ floatJ (List.zipWith logMul xs ys))
      | "invert" => pure (listJ floatJ (xs.map logInv))
      | "add_reduce" => pure (listJ floatJ [logAddReduce B xs])
      | "mult_reduce" => pure (listJ floatJ [logMulReduce xs])
      | "normalize" => pure (listJ floatJ (logNormalize B xs))
      | _ => none
  | _ => none

def opsHandlers : List (String × (J → Option J)) := [("opsf", hOpsF)]

end Dit.Drv
