/-
Handlers for the structural operations (C01, C02, C03, C09, C12, C19, C20).
Every handler is `J → Option J`; `none` is answered as `bad-op` by the main loop.
-/
import DitModel.Core.Sampling
import DitModel.Core.Counts
import DitModel.Core.Simplex
import DitModel.Drv.Codec
namespace Dit.Drv
open Dit

def decNat : J → Option Nat := J.toNat?
def decSym2 : J → Option (List Nat) := J.toList? J.toNat?
def encSym2 (l : List Nat) : J := listJ natJ l

def lex1 := lexBy natLt
def lex2 := lexBy (lexBy natLt)

/-- `construct [outs, pmf, spaceArg, base, sparse, trim]` -/
def hConstruct : J → Option J
  | .arr [outs, pmf, sp, b, sparse, trim] => do
      let outs ← J.toList? (J.toList? decNat) outs
      let pmf ← J.toList? J.toRat? pmf
      let sp ← J.toSpaceArg? decNat sp
      let b ← J.toBase? b
      let sparse ← sparse.toBool?
      let trim ← trim.toBool?
      match construct ratCfg natLt lex1 outs pmf sp b sparse trim with
      | .ok d => pure (.arr [.str "ok", obsJ natJ d, distJ natJ d])
      | .error e => pure (.arr [.str "err", errJ e])
  | _ => none

def J.toOp? : J → Option (Op Nat Rat)
  | .arr [.str "set", o, v] => do pure (.set (← J.toList? decNat o) (← v.toRat?))
  | .arr [.str "del", o] => do pure (.del (← J.toList? decNat o))
  | .arr [.str "dense"] => some .makeDense
  | .arr [.str "sparse", t] => do pure (.makeSparse (← t.toBool?))
  | .arr [.str "normalize"] => some .normalize
  | .arr [.str "setbase", b] => do pure (.setBase (← J.toBase? b))
  | .arr [.str "copy"] => some .copy
  | _ => none

def outValJ : Out Rat → J
  | .ok => .str "ok"
  | .err e => errJ e
  | .val v => ratJ v

def validJ (d : Dist Nat Rat) : J :=
  match d.validate ratCfg with
  | none => .str "valid"
  | some e => errJ e

/-- `hist [dist, [op, …]]`: after each op, the output, the observable record and the
verdict of `validate()`. -/
def hHist : J → Option J
  | .arr [d, ops] => do
      let d ← J.toDist? decNat d
      let ops ← J.toList? J.toOp? ops
      let (_, outs) := ops.foldl (fun (acc : Dist Nat Rat × List J) op =>
        let (s, o) := acc.1.step ratCfg op
        (s, J.arr [outValJ o, obsJ natJ s, validJ s] :: acc.2)) (d, [])
      pure (.arr outs.reverse)
  | _ => none

/-- `coalesce [dist, groups]` -/
def hCoalesce : J → Option J
  | .arr [d, groups] => do
      let d ← J.toDist? decNat d
      let groups ← J.toList? (J.toList? decNat) groups
      pure (obsJ encSym2 (d.coalesce ratCfg lex2 groups))
  | _ => none

/-- `coalesce1 [dist, group]` (extract=True; also `marginal` on parsed indices) -/
def hCoalesce1 : J → Option J
  | .arr [d, g] => do
      let d ← J.toDist? decNat d
      let g ← J.toList? decNat g
      pure (obsJ natJ (d.coalesce1 ratCfg lex1 g))
  | _ => none

def exceptJ {β : Type} (f : β → J) : Except Err β → J
  | .ok v => .arr [.str "ok", f v]
  | .error e => .arr [.str "err", errJ e]

/-- `parse [n, rvs, unique, sort]` -/
def hParse : J → Option J
  | .arr [n, rvs, u, s] => do
      pure (exceptJ (listJ natJ) (parseIdx (← n.toNat?) (← J.toList? decNat rvs) (← u.toBool?) (← s.toBool?)))
  | _ => none

/-- `resolve [names, rvs]` (names as naturals) -/
def hResolve : J → Option J
  | .arr [names, rvs] => do
      pure (exceptJ (listJ natJ) (resolveNames (← J.toList? decNat names) (← J.toList? decNat rvs)))
  | _ => none

/-- `marginal [dist, n, rvs]`: parse (unique, sorted) then marginal; also names/mask. -/
def hMarginal : J → Option J
  | .arr [d, n, rvs] => do
      let d ← J.toDist? decNat d
      let n ← n.toNat?
      let rvs ← J.toList? decNat rvs
      match parseIdx n rvs true true with
      | .error e => pure (.arr [.str "err", errJ e])
      | .ok idx =>
        pure (.arr [.str "ok", obsJ natJ (d.marginal ratCfg lex1 idx),
                    listJ natJ (marginalNames (List.range n) idx),
                    listJ J.bool (marginalMask n idx)])
  | _ => none

/-- `marginalize [dist, n, rvs]` -/
def hMarginalize : J → Option J
  | .arr [d, n, rvs] => do
      let d ← J.toDist? decNat d
      let n ← n.toNat?
      let rvs ← J.toList? decNat rvs
      match parseIdx n rvs true true with
      | .error e => pure (.arr [.str "err", errJ e])
      | .ok idx =>
        let keep := complIdx n idx
        pure (.arr [.str "ok", obsJ natJ (d.marginalize ratCfg lex1 n idx),
                    listJ natJ (marginalNames (List.range n) keep),
                    listJ J.bool (marginalMask n keep)])
  | _ => none

/-- `condition [dist, cidx, idx]` for parsed index lists. -/
def hCondition : J → Option J
  | .arr [d, cidx, idx] => do
      let d ← J.toDist? decNat d
      let cidx ← J.toList? decNat cidx
      let idx ← J.toList? decNat idx
      let r := d.conditionOn ratCfg lex1 cidx idx
      pure (.arr [obsJ natJ r.cdist, listJ (obsJ natJ) r.conds])
  | _ => none

/-- `jff [mask, mtab, [ctab, …]]` -/
def hJff : J → Option J
  | .arr [mask, m, cs] => do
      let mask ← J.toList? J.toBool? mask
      let m ← J.toTab? decNat m
      let cs ← J.toList? (J.toTab? decNat) cs
      pure (tabJ natJ (jointFromFactors mask m cs))
  | _ => none

def optNatJ : Option Nat → J
  | some n => natJ n
  | none => .null

/-- `samplef [pmf bits, us bits]`: the scan in IEEE double arithmetic. -/
def hSampleF : J → Option J
  | .arr [pmf, us] => do
      let pmf ← J.toList? J.toFloat? pmf
      let us ← J.toList? J.toFloat? us
      pure (.arr [listJ optNatJ (us.map (sampleIdx pmf)), listJ optNatJ (us.map (sampleIdxF pmf))])
  | _ => none

/-- `sampleq [pmf, us]`: the scan in exact arithmetic. -/
def hSampleQ : J → Option J
  | .arr [pmf, us] => do
      let pmf ← J.toList? J.toRat? pmf
      let us ← J.toList? J.toRat? us
      pure (.arr [listJ optNatJ (us.map (sampleIdx pmf)), listJ optNatJ (us.map (sampleIdxF pmf))])
  | _ => none

/-- `counts [L, data]` with vector-valued observations as lists of naturals. -/
def hCounts : J → Option J
  | .arr [L, data] => do
      let L ← L.toNat?
      let data ← J.toList? (J.toList? decNat) data
      let wc := wordCounts L data
      pure (.arr [listJ (fun r => J.arr [listJ encSym2 r.1, natJ r.2]) wc,
                  natJ (windows L data).length])
  | _ => none

/-- `condcounts [h, f, data]` -/
def hCondCounts : J → Option J
  | .arr [h, f, data] => do
      let h ← h.toNat?
      let f ← f.toNat?
      let data ← J.toList? (J.toList? decNat) data
      let wc := wordCounts (h + f) data
      pure (.arr [listJ (fun r => J.arr [listJ encSym2 r.1.1, listJ encSym2 r.1.2, natJ r.2]) (condCounts h wc),
                  listJ (fun r => J.arr [listJ encSym2 r.1, natJ r.2]) (histCounts h wc)])
  | _ => none

/-- `slots [n, k]` -/
def hSlots : J → Option J
  | .arr [n, k] => do pure (listJ (listJ natJ) (slots (← n.toNat?) (← k.toNat?)))
  | _ => none

def basicHandlers : List (String × (J → Option J)) :=
  [("construct", hConstruct), ("hist", hHist), ("coalesce", hCoalesce),
   ("coalesce1", hCoalesce1), ("parse", hParse), ("resolve", hResolve),
   ("marginal", hMarginal), ("marginalize", hMarginalize), ("condition", hCondition),
   ("jff", hJff), ("samplef", hSampleF), ("sampleq", hSampleQ), ("counts", hCounts),
   ("condcounts", hCondCounts), ("slots", hSlots)]

end Dit.Drv
