/-
Handlers for the constructors and algebra (C11, C07): exact arithmetic on tables.
-/
import DitModel.Core.Constructors
import DitModel.Drv.Basic
namespace Dit.Drv
open Dit

def J.toNTab? : J → Option (Tab (List Nat) Rat) := J.toTab? decNat

/-- Scalar tables with rational outcomes: `[[outcome, value], …]`. -/
def J.toQTab? : J → Option (Tab Rat Rat) :=
  J.toList? (fun r => match r with
    | .arr [o, v] => do pure (← o.toRat?, ← v.toRat?)
    | _ => none)

def qtabJ (t : Tab Rat Rat) : J := listJ (fun r => J.arr [ratJ r.1, ratJ r.2]) t

/-- A finite map on outcomes given as a list of pairs. -/
def J.toMap? : J → Option (List (List Nat × List Nat)) :=
  J.toList? (fun r => match r with
    | .arr [a, b] => do pure (← J.toList? decNat a, ← J.toList? decNat b)
    | _ => none)

def applyMap (m : List (List Nat × List Nat)) (o : List Nat) : List Nat :=
  (lookup? m o).getD o

def ratFloor (q : Rat) : Int := Int.fdiv q.num q.den

/-- Python's binary operators on numbers (floor division and modulo with Python's sign rules). -/
def pyOp (name : String) (a b : Rat) : Option Rat :=
  match name with
  | "add" => some (a + b)
  | "sub" => some (a - b)
  | "mul" => some (a * b)
  | "truediv" => if b = 0 then none else some (a / b)
  | "floordiv" => if b = 0 then none else some ((ratFloor (a / b) : Int) : Rat)
  | "mod" => if b = 0 then none else some (a - b * ((ratFloor (a / b) : Int) : Rat))
  | "lt" => some (if a < b then 1 else 0)
  | "le" => some (if a ≤ b then 1 else 0)
  | "eq" => some (if a = b then 1 else 0)
  | "ne" => some (if a = b then 0 else 1)
  | "gt" => some (if b < a then 1 else 0)
  | "ge" => some (if b ≤ a then 1 else 0)
  | _ => none

def hModify : J → Option J
  | .arr [t, m] => do
      let t ← J.toNTab? t
      let m ← J.toMap? m
      pure (tabJ natJ (modifyOutcomes (applyMap m) t))
  | _ => none

def hInsertRvf : J → Option J
  | .arr [t, m, idx] => do
      let t ← J.toNTab? t
      let m ← J.toMap? m
      let idx ← match idx with
        | .null => some none
        | j => j.toNat?.map some
      pure (tabJ natJ (insertRvf (fun o => (lookup? m o).getD []) idx t))
  | _ => none

def hProduct : J → Option J
  | .arr [t, groups] => do
      pure (tabJ natJ (productDistribution (← J.toList? (J.toList? decNat) groups) (← J.toNTab? t)))
  | _ => none

def hMixture : J → Option J
  | .arr [.str "merge", ts, w] => do
      pure (tabJ natJ (mixture (← J.toList? J.toNTab? ts) (← J.toList? J.toRat? w)))
  | .arr [.str "aligned", ts, w] => do
      pure (tabJ natJ (mixture2 (← J.toList? J.toNTab? ts) (← J.toList? J.toRat? w)))
  | _ => none

/-- `combine [op, t1, t2]`; `null` if some pair is outside the operator's domain (division by 0). -/
def hCombine : J → Option J
  | .arr [.str name, t1, t2] => do
      let t1 ← J.toQTab? t1
      let t2 ← J.toQTab? t2
      if t1.all (fun r => t2.all (fun s => (pyOp name r.1 s.1).isSome)) then
        pure (qtabJ (combine (fun a b => (pyOp name a b).getD 0) t1 t2))
      else pure .null
  | _ => none

def hMatmul : J → Option J
  | .arr [t1, t2] => do
      let t1 ← J.toQTab? t1
      let t2 ← J.toQTab? t2
      pure (listJ (fun r => J.arr [listJ ratJ r.1, ratJ r.2]) (matmul t1 t2))
  | _ => none

def hErasure : J → Option J
  | .arr [t, e, eps] => do
      pure (tabJ natJ (erasureTab (← e.toNat?) (← eps.toRat?) (← J.toNTab? t)))
  | _ => none

def hNoisy : J → Option J
  | .arr [t, alph, noise] => do
      pure (tabJ natJ (noisyTab (fun n => (n : Rat)) (← J.toList? (J.toList? decNat) alph) (← noise.toRat?) (← J.toNTab? t)))
  | _ => none

def hUniform : J → Option J
  | .arr [outs] => do
      pure (tabJ natJ (uniformTab (fun n => (n : Rat)) (← J.toList? (J.toList? decNat) outs)))
  | _ => none

/-- `stats [qtab, k]`: mean, k-th central moment, modes, cumulative values. -/
def hStats : J → Option J
  | .arr [t, k] => do
      let t ← J.toQTab? t
      let k ← k.toNat?
      pure (.arr [ratJ (meanTab t), ratJ (centralMoment t k), listJ ratJ (modeTab t), listJ ratJ (cumVals t)])
  | _ => none

def constrHandlers : List (String × (J → Option J)) :=
  [("modify", hModify), ("insertrvf", hInsertRvf), ("product", hProduct), ("mixture", hMixture),
   ("combine", hCombine), ("matmul", hMatmul), ("erasure", hErasure), ("noisy", hNoisy),
   ("uniform", hUniform), ("stats", hStats)]

end Dit.Drv
