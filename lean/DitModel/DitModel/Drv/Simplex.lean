/-
Handlers for the simplex utilities (C20): the generic definitions of Core/Aitchison
evaluated in `Float` (transcendental ones) and in `Rat` (rational ones).
-/
import DitModel.Core.Aitchison
import DitModel.Drv.Basic
namespace Dit.Drv
open Dit

def floatA : AOps Float := ⟨Float.log2, Float.exp2, Float.sqrt, Float.pow, Float.ofNat⟩

def fl (l : List Float) : J := listJ floatJ l

/-- `aitchf [name, x, y]`: `x`, `y` lists of doubles (bit patterns); `y` may be a one-element
list carrying a scalar. -/
def hAitchF : J → Option J
  | .arr [.str name, x, y] => do
      let x ← J.toList? J.toFloat? x
      let y ← J.toList? J.toFloat? y
      match name with
      | "closure" => pure (fl (closure x))
      | "perturbation" => pure (fl (perturbation x y))
      | "power" => pure (fl (powering floatA x (y.getD 0 0)))
      | "clr" => pure (fl (clr floatA x))
      | "clr_inv" => pure (fl (clrInv floatA x))
      | "alr" => pure (fl (alr floatA x))
      | "alr_inv" => pure (fl (alrInv floatA x))
      | "ilr" => pure (fl (ilr floatA x))
      | "ilr_inv" => pure (fl (ilrInv floatA x))
      | "inner" => pure (fl [ainner floatA x y])
      | "norm" => pure (fl [anorm floatA x])
      | "dist" => pure (fl [adist floatA x y])
      | _ => none
  | _ => none

def rl (l : List Rat) : J := listJ ratJ l

/-- `simplexq [name, args…]` in exact arithmetic. -/
def hSimplexQ : J → Option J
  | .arr [.str "closure", x] => do pure (rl (closure (← J.toList? J.toRat? x)))
  | .arr [.str "perturbation", x, y] => do
      pure (rl (perturbation (← J.toList? J.toRat? x) (← J.toList? J.toRat? y)))
  | .arr [.str "convex", pmfs, w] => do
      pure (rl (convexCombination (← J.toList? (J.toList? J.toRat?) pmfs) (← J.toList? J.toRat? w)))
  | .arr [.str "replace_zeros", pmf, repl] => do
      pure (rl (replaceZeros (← J.toList? J.toRat? pmf) (← J.toList? J.toRat? repl)))
  | .arr [.str "downsample", m, pmf] => do
      pure (rl (downsample (fun n => (n : Rat)) (← m.toNat?) (← J.toList? J.toRat? pmf)))
  | _ => none

def simplexHandlers : List (String × (J → Option J)) :=
  [("aitchf", hAitchF), ("simplexq", hSimplexQ)]

end Dit.Drv
