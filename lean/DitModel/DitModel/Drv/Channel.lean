/-
Handlers for channels and rate–distortion (C13): Core/Channel evaluated in `Float`.
-/
import DitModel.Core.Channel
import DitModel.Core.BA
import DitModel.Core.CapLoop
import DitModel.Drv.Info
namespace Dit.Drv
open Dit

def J.toFMat? : J → Option (List (List Float)) := J.toList? (J.toList? J.toFloat?)

/-- `chanf [name, r, P, extra]`:
  mi        -> I(r; P)
  gap       -> max_x D(P_x || rP) - I(r;P)
  rowkl     -> the row divergences D(P_x || rP)
  jointmi   -> I of the joint matrix P
  expdist   -> Σ P[x][y] extra[x][y]
  rdbound   -> rdLowerBound with beta = r[0], source = rows sums … see harness
  bastep    -> one BA capacity step from r -/
def hChanF : J → Option J
  | .arr [.str name, r, P, extra] => do
      let r ← J.toList? J.toFloat? r
      let P ← J.toFMat? P
      let extra ← J.toFMat? extra
      match name with
      | "mi" => pure (floatJ (channelMI Float.log2 r P))
      | "gap" => pure (floatJ (capacityGap Float.log2 r P))
      | "rowkl" => pure (listJ floatJ (P.map (fun px => klRow Float.log2 px (outputLaw r P))))
      | "jointmi" => pure (floatJ (jointMI Float.log2 P))
      | "expdist" => pure (floatJ (expDistortion P extra))
      | "rdbound" =>
        -- r = [beta], P = joint Q, extra = distortion matrix
        let beta := r.getD 0 0
        pure (floatJ (rdLowerBound Float.log2 Float.exp2 beta (rowSums P) (colSums P) extra))
      | "bastep" => pure (listJ floatJ (baCapacityStep Float.log2 Float.exp2 r P))
      | _ => none
  | _ => none

/-- `baf [kind, beta, p, W0, k, pxy]`: the first `k` iterates of `_blahut_arimoto` (no stopping rule) with the
distortion function `kind` ∈ hamming | residual | ib; returns `[[W_i, d_i], …]`, `i = 0..k`. -/
def hBaF : J → Option J
  | .arr [.str kind, beta, p, W0, k, pxy] => do
      let beta ← beta.toFloat?
      let p ← J.toList? J.toFloat? p
      let W0 ← J.toFMat? W0
      let k ← k.toNat?
      let pxy ← J.toFMat? pxy
      let n := W0.length
      let m := (W0.headD []).length
      let distFn : List (List Float) → List (List Float) := match kind with
        | "hamming" => fun _ => hammingDist n m
        | "residual" => residualDist Float.log2 p
        | _ => ibDist Float.log2 pxy
      if kind != "hamming" && kind != "residual" && kind != "ib" then none else
      pure (listJ (fun (st : List (List Float) × Float) => J.arr [listJ (listJ floatJ) st.1, floatJ st.2])
        (baIterates Float.exp2 beta p distFn k W0))
  | _ => none

/-- `capf [P, rtol, atol, fuel]`: `channel_capacity` on an array with the code's stopping rule
`|cc − old| ≤ atol + rtol·|old|`; returns `[cc, r, passes]`. -/
def hCapF : J → Option J
  | .arr [P, rtol, atol, fuel] => do
      let P ← J.toFMat? P
      let rtol ← rtol.toFloat?
      let atol ← atol.toFloat?
      let fuel ← fuel.toNat?
      let (cc, r, it) := capRun Float.log2 Float.exp2 (fun n => n.toFloat) P
        (fun a b => decide ((a - b).abs ≤ atol + rtol * b.abs)) fuel
      pure (J.arr [floatJ cc, listJ floatJ r, natJ it])
  | _ => none

def channelHandlers : List (String × (J → Option J)) := [("chanf", hChanF), ("baf", hBaF), ("capf", hCapF)]

end Dit.Drv
