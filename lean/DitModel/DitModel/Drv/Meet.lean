/-
Handlers for meet / join / minimal sufficient statistic partitions (C16).
-/
import DitModel.Core.Meet
import DitModel.Drv.Basic
namespace Dit.Drv
open Dit

def classesJ (cs : List (List (List Nat))) : J := listJ (listJ (listJ natJ)) cs

/-- `classes [kind, rows, groups]` with kind `join` | `meet`. -/
def hClasses : J → Option J
  | .arr [.str kind, rows, groups] => do
      let rows ← J.toList? (J.toList? decNat) rows
      let groups ← J.toList? (J.toList? decNat) groups
      match kind with
      | "join" => pure (classesJ (joinClasses groups rows))
      | "meet" => pure (classesJ (meetClasses groups rows))
      | _ => none
  | _ => none

/-- `mss [tab, rvs, about]`. -/
def hMss : J → Option J
  | .arr [t, rvs, about] => do
      pure (classesJ (mssClasses (← J.toTab? decNat t) (← J.toList? decNat rvs) (← J.toList? decNat about)))
  | _ => none

def meetHandlers : List (String × (J → Option J)) := [("classes", hClasses), ("mss", hMss)]

end Dit.Drv
