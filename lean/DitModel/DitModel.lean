import DitModel.Core.Table
import DitModel.Core.Sampling
import DitModel.Core.Counts
import DitModel.Core.Simplex
import DitModel.Core.Dist
import DitModel.Core.Coalesce
import DitModel.Props.C12
