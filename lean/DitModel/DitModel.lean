import DitModel.Core.Table
import DitModel.Core.Sampling
import DitModel.Core.Counts
import DitModel.Core.Simplex
