#!/usr/bin/env python3
"""
Confirm and evaluate a seeded change:  tools_seeded.py <mutdir> <Cxx> [--keep-as NAME] [--tier quick]

 1. demo.py exits 0 on the unchanged /repo;
 2. the patch applies to a scratch worktree of /repo; there the demo exits non-zero and the
    stable baseline tests still pass (scratch worktree removed afterwards);
 3. the patch is applied to /repo itself, `./check <Cxx>` is run, and /repo is restored;
 4. with --keep-as the change is stored under /verif/seeded/<NAME>/ with meta.json.
"""
import json
import os
import shutil
import subprocess
import sys
import time

VERIF = os.path.dirname(os.path.abspath(__file__))
PYDEPS = 'PYTHONPATH=%s:%s/pyshim:%s/pydeps'
BASE_TESTS = 'tests/math tests/utils tests/test_params.py tests/test_npdist.py'


def sh(cmd, **kw):
    return subprocess.run(cmd, shell=True, capture_output=True, text=True, **kw)


def demo(tree, path):
    env = dict(os.environ, PYTHONPATH='%s:%s/pyshim:%s/pydeps' % (tree, VERIF, VERIF))
    r = subprocess.run(['/venv/bin/python', '-B', path], capture_output=True, text=True, env=env, cwd='/tmp', timeout=600)
    return r.returncode, (r.stdout + r.stderr)[-600:]


def baseline_ok(tree):
    r = sh('cd %s && /venv/bin/python -m pytest -q -p no:cacheprovider --timeout=900 --continue-on-collection-errors %s 2>&1 | tail -3' % (tree, BASE_TESTS))
    base = json.load(open('/root/.vp/BASELINE.json'))
    # full comparison through junit
    r2 = sh('cd %s && /venv/bin/python -m pytest -q -p no:cacheprovider --timeout=900 --continue-on-collection-errors --junitxml=/tmp/_seed_junit_%d.xml %s >/dev/null 2>&1' % (tree, os.getpid(), BASE_TESTS))
    import xml.etree.ElementTree as ET
    ok = set()
    for tc in ET.parse('/tmp/_seed_junit_%d.xml' % os.getpid()).iter('testcase'):
        if not list(tc):
            ok.add(tc.get('classname') + '::' + tc.get('name'))
    missing = [s for s in base['stable_pass'] if s not in ok]
    os.remove('/tmp/_seed_junit_%d.xml' % os.getpid())
    return not missing, missing[:5]


def main():
    mutdir, pid = sys.argv[1], sys.argv[2]
    keep = None
    tier = 'quick'
    if '--keep-as' in sys.argv:
        keep = sys.argv[sys.argv.index('--keep-as') + 1]
    if '--tier' in sys.argv:
        tier = sys.argv[sys.argv.index('--tier') + 1]
    patch = os.path.join(mutdir, 'patch.diff')
    dem = os.path.join(mutdir, 'demo.py')
    meta = json.load(open(os.path.join(mutdir, 'meta.json'))) if os.path.exists(os.path.join(mutdir, 'meta.json')) else {}
    out = {'property': pid, 'source': mutdir, 'summary': meta.get('summary'), 'needs': meta.get('needs')}
    assert os.environ.get('SEEDED_SCRATCH') or sh('git -C /repo status --porcelain').stdout.strip() == '', '/repo is dirty'
    rc, log = demo('/repo', dem)
    out['demo_clean_rc'] = rc
    wt = '/tmp/_seed_wt_%d' % os.getpid()
    sh('git -C /repo worktree add -q %s HEAD' % wt)
    try:
        ap = sh('git -C %s apply %s' % (wt, patch))
        out['applies'] = ap.returncode == 0
        if ap.returncode != 0:
            out['apply_err'] = ap.stderr[-300:]
        else:
            rc2, log2 = demo(wt, dem)
            out['demo_mutated_rc'] = rc2
            out['demo_mutated_out'] = log2[-300:]
            ok, missing = baseline_ok(wt)
            out['baseline_ok'] = ok
            out['baseline_missing'] = missing
            if os.environ.get('SEEDED_SCRATCH') and ap.returncode == 0 and out['demo_clean_rc'] == 0 and rc2 != 0 and ok:
                # first-pass evaluation against the scratch worktree (DIT_REPO), leaving /repo alone; the record of
                # detection is made by tools_regress.py, which applies the patch to /repo itself
                t0 = time.time()
                r = sh('cd %s && DIT_REPO=%s ./check %s --tier %s' % (VERIF, wt, pid, tier))
                lines = [l for l in r.stdout.splitlines() if l.startswith(('VIOLATION', 'KNOWN', pid))]
                out.update({'confirmed': True, 'check_rc': r.returncode, 'check_s': round(time.time() - t0, 1),
                            'check_lines': lines[-6:], 'detected': r.returncode == 1 and any(
                                l.startswith('VIOLATION') and 'no-failing-input-found' not in l for l in lines)})
                for l in lines:
                    if l.startswith('VIOLATION'):
                        try:
                            out['first_replay'] = json.load(open(os.path.join(VERIF, l.split('replay=')[1].split()[0])))['broken'][:300]
                        except Exception:
                            pass
                        break
    finally:
        sh('git -C /repo worktree remove --force %s' % wt)
    if os.environ.get('SEEDED_SCRATCH'):
        out.setdefault('confirmed', False)
    elif out.get('applies') and out['demo_clean_rc'] == 0 and out.get('demo_mutated_rc') not in (0, None) and out.get('baseline_ok'):
        out['confirmed'] = True
        sh('git -C /repo apply %s' % patch)
        try:
            t0 = time.time()
            r = sh('cd %s && ./check %s --tier %s' % (VERIF, pid, tier))
            out['check_rc'] = r.returncode
            out['check_s'] = round(time.time() - t0, 1)
            lines = [l for l in r.stdout.splitlines() if l.startswith(('VIOLATION', 'KNOWN', pid))]
            out['check_lines'] = lines[-6:]
            out['detected'] = r.returncode == 1
            # first replay's reason
            for l in lines:
                if l.startswith('VIOLATION'):
                    rp = l.split('replay=')[1].split()[0]
                    try:
                        out['first_replay'] = json.load(open(os.path.join(VERIF, rp)))['broken'][:300]
                    except Exception:
                        pass
                    break
        finally:
            sh('git -C /repo checkout -- .')
    else:
        out['confirmed'] = False
    print(json.dumps(out, indent=1))
    if keep and out.get('confirmed'):
        d = os.path.join(VERIF, 'seeded', keep)
        os.makedirs(d, exist_ok=True)
        shutil.copy(patch, os.path.join(d, 'patch.diff'))
        shutil.copy(dem, os.path.join(d, 'demo.py'))
        json.dump({'property': pid, 'summary': meta.get('summary'), 'needs': meta.get('needs'),
                   'ran': ['demo.py on unchanged /repo: exit %s' % out['demo_clean_rc'],
                           'demo.py on a scratch worktree with the patch: exit %s' % out.get('demo_mutated_rc'),
                           'stable baseline tests (%s) on the patched worktree: all 236 stable tests pass = %s' % (BASE_TESTS, out.get('baseline_ok')),
                           './check %s --tier %s on /repo with the patch applied: exit %s' % (pid, tier, out.get('check_rc'))],
                   'detected_by_check': out.get('detected'), 'check_output': out.get('check_lines'),
                   'first_replay_reason': out.get('first_replay')}, open(os.path.join(d, 'meta.json'), 'w'), indent=1)


if __name__ == '__main__':
    main()
