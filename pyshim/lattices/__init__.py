"""
Minimal re-implementation of the part of the third-party ``lattices`` package
that dit uses.  The real package is not installed in this sandbox and is not
in the offline wheelhouse.  Lives under /verif, put on sys.path by the checks
only.  Part of the trusted base for C17/C18 (see DESIGN.md section 3).
"""
from .lattices import Lattice, powerset_lattice, free_distributive_lattice, dependency_lattice  # noqa: F401
