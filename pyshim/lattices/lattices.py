"""
Lattice, powerset_lattice, free_distributive_lattice, dependency_lattice.

Conventions (these are what dit relies on):
  * ``relationship(a, b)`` means a <= b.
  * ``_lattice`` is a networkx DiGraph holding the covering relation with edges
    pointing from the greater to the lesser element.
  * iteration (``_ts``) is a topological order starting at the top.
  * every method computes from the attributes ``_lattice``, ``_relationship``,
    ``top``, ``bottom``, ``_ts`` (dit.pid deep-copies a lattice and overwrites
    these), never from caches.
"""
from itertools import combinations, chain

import networkx as nx

__all__ = ('Lattice', 'powerset_lattice', 'free_distributive_lattice', 'dependency_lattice')


def _powerset(elements):
    elements = list(elements)
    return chain.from_iterable(combinations(elements, r) for r in range(len(elements) + 1))


class Lattice(object):

    def __init__(self, nodes, relationship):
        nodes = list(nodes)
        self._relationship = relationship
        g = nx.DiGraph()
        g.add_nodes_from(nodes)
        for a in nodes:
            for b in nodes:
                if a != b and relationship(b, a):
                    g.add_edge(a, b)  # a > b
        red = nx.transitive_reduction(g)
        # keep a deterministic node order (insertion order of `nodes`)
        h = nx.DiGraph()
        h.add_nodes_from(nodes)
        h.add_edges_from((a, b) for a in nodes for b in nodes if red.has_edge(a, b))
        self._lattice = h
        order = {n: i for i, n in enumerate(nodes)}
        self._ts = list(nx.lexicographical_topological_sort(h, key=lambda n: order[n]))
        self.top = self._ts[0]
        self.bottom = self._ts[-1]

    def __iter__(self):
        return iter(self._ts)

    def __len__(self):
        return len(self._ts)

    def __contains__(self, node):
        return node in self._lattice

    def descendants(self, node, include=False):
        d = nx.descendants(self._lattice, node)
        if include:
            d = d | {node}
        return [n for n in self._ts if n in d]

    def ascendants(self, node, include=False):
        d = nx.ancestors(self._lattice, node)
        if include:
            d = d | {node}
        return [n for n in self._ts if n in d]

    def covers(self, node):
        return set(self._lattice.successors(node))

    def inverse(self):
        from copy import copy
        inv = copy(self)
        inv._lattice = self._lattice.reverse()
        rel = self._relationship
        inv._relationship = lambda a, b: rel(b, a)
        inv._ts = list(reversed(self._ts))
        inv.top, inv.bottom = self.bottom, self.top
        return inv

    def join(self, *nodes, predicate=None):
        """
        Least upper bound of `nodes` among the elements satisfying `predicate`.
        """
        ubs = None
        for n in nodes:
            a = set(self.ascendants(n, include=True))
            ubs = a if ubs is None else (ubs & a)
        ubs = ubs if ubs is not None else set(self._ts)
        if predicate is not None:
            ubs = {n for n in ubs if predicate(n)}
        minimal = [n for n in ubs if not any((m != n and m in nx.descendants(self._lattice, n)) for m in ubs)]
        if len(minimal) != 1:
            raise ValueError("no unique join")
        return minimal[0]

    def meet(self, *nodes, predicate=None):
        return self.inverse().join(*nodes, predicate=predicate)

    def chains(self):
        """
        All maximal chains, each listed from the bottom to the top.
        """
        for path in nx.all_simple_paths(self._lattice, self.top, self.bottom):
            yield list(reversed(path))


def powerset_lattice(elements):
    elements = list(elements)
    nodes = sorted(_powerset(elements), key=lambda t: -len(t))
    return Lattice(nodes, lambda a, b: set(a) <= set(b))


def _antichains(sources):
    subsets = [frozenset(s) for s in _powerset(sources) if s]
    out = []
    for fam in _powerset(subsets):
        if not fam:
            continue
        if all(not (a < b or b < a) for a, b in combinations(fam, 2)):
            out.append(frozenset(fam))
    return out


def free_distributive_lattice(elements):
    """
    The redundancy lattice of Williams & Beer: antichains of non-empty subsets of
    `elements`, ordered by  a <= b  iff every beta in b contains some alpha in a.
    Nodes are frozensets of frozensets of the elements.
    """
    elements = list(elements)
    nodes = _antichains(elements)

    def le(a, b):
        return all(any(alpha <= beta for alpha in a) for beta in b)

    nodes.sort(key=lambda n: (-max(len(x) for x in n), len(n), sorted(sorted(map(repr, x)) for x in n)))
    return Lattice(nodes, le)


def dependency_lattice(elements, cover=True):
    """
    Lattice of dependency structures (antichains of subsets of `elements`;
    with ``cover`` every element must appear in some member), ordered by
    refinement:  a <= b  iff every alpha in a is contained in some beta in b.
    Nodes are frozensets of frozensets.
    """
    elements = list(elements)
    nodes = _antichains(elements)
    if cover:
        full = frozenset(elements)
        nodes = [n for n in nodes if frozenset().union(*n) == full]
    else:
        nodes = nodes + [frozenset([frozenset()])]

    def le(a, b):
        return all(any(alpha <= beta for beta in b) for alpha in a)

    nodes.sort(key=lambda n: (-max(len(x) for x in n), len(n), sorted(sorted(map(repr, x)) for x in n)))
    return Lattice(nodes, le)
